"""C01 bounded stand-in (native): small programs of the core language through the REAL `meson setup --backend=none`
(no compiler, no ninja) against a reference evaluator written from the language reference: floor division and modulo,
short-circuit logic, negative indexing, sorted dict keys, value semantics of = and +=, escape decoding, and the
documented rejections (no chained comparisons, no stacked unary operators, no nested ternary, no implicit conversion)."""
import itertools, os, random, re, subprocess, sys, tempfile
from bounded.util import chunked, pmap


def fmt(v):
    if isinstance(v, bool):
        return 'true' if v else 'false'
    if isinstance(v, list):
        return '[' + ', '.join(fmt_item(x) for x in v) + ']'
    return str(v)


def fmt_item(v):
    return "'" + v + "'" if isinstance(v, str) else fmt(v)


def run_program(lines):
    repo = os.environ.get('VERIF_REPO', '/repo')
    with tempfile.TemporaryDirectory() as d:
        open(os.path.join(d, 'meson.build'), 'w').write("project('p')\n" + '\n'.join(lines) + '\n')
        try:
            r = subprocess.run([sys.executable, os.path.join(repo, 'meson.py'), 'setup', '--backend=none', os.path.join(d, 'b'), d], capture_output=True, text=True, timeout=40)
        except subprocess.TimeoutExpired:
            return 124, {}, 'the program did not terminate within 40 s' 
    out = {}
    for l in r.stdout.splitlines():
        m = re.match(r'Message: (K\d+) ?(.*)', l)
        if m:
            out[m.group(1)] = m.group(2)
    return r.returncode, out, r.stdout[-400:]


INTS = [-7, -2, -1, 0, 1, 2, 3, 7]


def _deep_contains(arr, x):
    return any(e == x or (isinstance(e, list) and _deep_contains(e, x)) for e in arr)


def array_method_cases():
    """array methods on NESTED arrays: contains() (an element that is itself an array compared as a whole; only the cases in which the
    shallow and the descending reading of the manual agree), `in`, get(), length(), indexing"""
    recv = [[[1, 2], 3], [['a', 'b'], ['c', 'd']], [[]], [1, [2, [3]]], [[1], [1, 2]], [[], 0], [['x']], [[[1]]], [1, 2]]
    args = [[1, 2], ['c', 'd'], [], [3], [1], ['x'], [[1]], 1, 3, 'x', [2, [3]], [2, 1]]
    out = []
    for r in recv:
        for a in args:
            if any(type(x) is not type(a) and not isinstance(x, list) and not isinstance(a, list) for x in _flat(r)):
                continue          # (comparing an int with a str is an error in newer versions: not part of this table)
            shallow, deep = a in r, _deep_contains(r, a)
            if shallow == deep:
                out.append((f'{fmt_item(r)}.contains({fmt_item(a)})', deep))
            out.append((f'{fmt_item(a)} in {fmt_item(r)}', shallow))
            out.append((f'{fmt_item(a)} not in {fmt_item(r)}', not shallow))
        out.append((f'{fmt_item(r)}.length()', len(r)))
        out.append((f'{fmt_item(r)}.get(0)', r[0]))
        out.append((f'{fmt_item(r)}[-1]', r[-1]))
        # every index from -length to length - 1, through [] and through get() with and without a fallback; just outside: the fallback
        for i in range(-len(r), len(r)):
            out.append((f'{fmt_item(r)}.get({i})', r[i]))
            out.append((f"{fmt_item(r)}.get({i}, 'fb')", r[i]))
            out.append((f'{fmt_item(r)}[{i}]', r[i]))
        out.append((f"{fmt_item(r)}.get({len(r)}, 'fb')", 'fb'))
        out.append((f"{fmt_item(r)}.get({-len(r) - 1}, 'fb')", 'fb'))
    return out


def _flat(v):
    for x in v:
        if isinstance(x, list):
            yield from _flat(x)
        else:
            yield x


def gen_exprs(rnd, n):
    """(meson text, python value) pairs over ints / bools / arrays"""
    out = []
    for a, b in itertools.product(INTS, INTS):
        if b != 0:
            out.append((f'{a} / {b}' if a >= 0 else f'({a}) / {b}', a // b))
            out.append((f'{a} % {b}' if a >= 0 else f'({a}) % {b}', a % b))
    arr = [10, 20, 30, 40]
    for i in range(-4, 4):
        out.append((f'{arr}[{i}]', arr[i]))
    out += [("{'b': 1, 'a': 2, 'c': 0}.keys()", ['a', 'b', 'c']), ('true and false', False), ('false or true', True), ('not false', True),
            ('1 < 2 and 2 < 3', True), ('1 + 2 * 3 - 4', 3), ('(1 + 2) * 3', 9), ('7 - 2 - 1', 4), ('2 * 3 % 4', 2), ('true ? 1 : 2', 1), ('false ? 1 : 2', 2),
            ('3 in [1, 2, 3]', True), ('4 not in [1, 2, 3]', True), ("'a' + 'b'", 'ab'), ('[1] + [2, 3]', [1, 2, 3]), ('-3 + 5', 2), ('1 == 1', True), ('1 != 1', False),
            # string methods per the reference manual; format() substitutes every @N@ of the TEMPLATE once, inserted text is not scanned
            ("'@0@-@1@'.format('@1@', 'x')", '@1@-x'), ("'@1@-@0@'.format('@1@', 'x')", 'x-@1@'), ("'@0@@0@'.format('a')", 'aa'), ("'@1@@0@'.format('a', 'b')", 'ba'),
            ("'@0@'.format('@0@')", '@0@'), ("'@0@ and @1@'.format(1, true)", '1 and true'), ("' a b '.strip()", 'a b'), ("'a,b,,c'.split(',')", ['a', 'b', '', 'c']),
            ("'abc'.to_upper()", 'ABC'), ("'a-b.c'.underscorify()", 'a_b_c'), ("'x'.join(['a', 'b', 'c'])", 'axbxc'), ("'abc'.contains('bc')", True), ("'abc'.startswith('bc')", False),
            ("'abc'.endswith('bc')", True), ("'37'.to_int()", 37), ("'abcdef'.substring(1, 3)", 'bc'), ("'abcdef'.substring(-2)", 'ef'), ("'aXbXc'.replace('X', '@0@')", 'a@0@b@0@c'),
            ("'1.2.3'.version_compare('>=1.2')", True), ("'a' + 'b' == 'ab'", True), ("'b' > 'a'", True), ("'abc'[1]" if False else "'x' in 'axb'", True),
            ("{'b': 1, 'a': 2}.get('a')", 2), ("{'b': 1}.get('z', 9)", 9), ("{'b': 1}.has_key('b')", True), ("[1, 2, 3].contains(2)", True), ("[3, 1, 2].length()", 3), ("[1, [2, 3]].get(1)", [2, 3]),
            ("7.is_odd()", True), ("8.is_even()", True), ("7.to_string()", '7'), ("true.to_int()", 1), ("true.to_string('yes', 'no')", 'yes'),
            # optional arguments given explicitly with a "falsy" value (0, '') are given, not absent; substring is python's s[start:end]
            ("'foobar'.substring(0, 0)", ''), ("'foobar'.substring(2, 0)", ''), ("'foobar'.substring(-3, 0)", ''), ("'foobar'.substring(0)", 'foobar'), ("'foobar'.substring(3)", 'bar'),
            ("'foobar'.substring(0, 3)", 'foo'), ("'foobar'.substring(2, -1)", 'oba'), ("'foobar'.substring(64, 0)", ''), ("'foobar'.substring(-64)", 'foobar'), ("'foobar'.substring(4, 2)", ''),
            ("true.to_string('', 'no')", ''), ("false.to_string('yes', '')", ''), ("false.to_string('yes', 'no')", 'no'), ("true.to_string()", 'true'), ("false.to_string()", 'false'),
            ("'a b'.split()", ['a', 'b']), ("'a,b'.split(',')", ['a', 'b']), ("''.join(['a', 'b'])", 'ab'), ("'abc'.replace('b', '')", 'ac'), ("{'k': 0}.get('k', 5)", 0), ("{'k': ''}.get('k', 'd')", ''),
            ("'0'.to_int()", 0), ("0.to_string()", '0'), ("0.is_even()", True), ("'abc'.startswith('')", True), ("'abc'.contains('')", True), ("[0, 1].contains(0)", True), ("[''].contains('')", True),
            # escape sequences of '...' are decoded ONCE, left to right: an escaped backslash is a backslash, whatever follows it
            (r"'a\\x41b' == 'a' + '\\' + 'x41b'", True), (r"'\\x41' == 'A'", False), (r"'\x41' == 'A'", True), (r"'\\101' == 'A'", False), (r"'\101' == 'A'", True),
            (r"'C:\\tools\\x64\\7zip' == 'C:' + '\\' + 'tools' + '\\' + 'x64' + '\\' + '7zip'", True), (r"'\\\\x41' == '\\' + '\\' + 'x41'", True), (r"'\\\x41' == '\\' + 'A'", True),
            (r"'\\n'.contains('n')", True), (r"'\\u0041'.contains('u0041')", True), (r"'\\N{DIGIT ONE}'.contains('DIGIT')", True), (r"'\\t' == '\t'", False),
            *array_method_cases(), *BOOL_AS_INT_VALUES,
            ("'a\\nb'.split('\\n').length()", 2), ("'''a\\nb'''.split('\\n').length()", 1), ("'x' == 'x'", True), ('[1, 2] == [1, 2]', True)]
    return out


def value_semantics_program():
    """no operation on one name changes the value seen through another; short-circuit; foreach break/continue"""
    lines = ["a = [1, 2]", "b = a", "b += [3]", "message('K9001', a)", "message('K9002', b)",
             "d = {'k': 1}", "e = d", "e += {'j': 2}", "message('K9003', d.keys())", "message('K9004', e.keys())",
             "s = 'x'", "t = s", "t += 'y'", "message('K9005', s)",
             "n = 1", "m = n", "m += 1", "message('K9006', n)",
             "g = [1]", "h = [g, g]", "g += [2]", "message('K9007', h)",
             "r = []", "foreach x : [1, 2, 3, 4, 5]", "  if x == 2", "    continue", "  endif", "  if x == 4", "    break", "  endif", "  r += [x]", "endforeach", "message('K9008', r)",
             "xs = [1, 2]", "cnt = 0", "foreach x : xs", "  xs += [9]", "  cnt += 1", "endforeach", "message('K9009', cnt)",
             "u = false and [][0] == 1", "message('K9010', u)", "v = true or [][0] == 1", "message('K9011', v)",
             "set_variable('q', [1])", "w = get_variable('q')", "w += [2]", "message('K9012', get_variable('q'))",
             # a value that was itself produced by += and is then shared
             "da = {}", "da += {'x': 1}", "db = da", "db += {'y': 2}", "message('K9013', da.keys())", "message('K9014', db.keys())",
             "la = []", "la += [1]", "lb = la", "lb += [2]", "la += [3]", "message('K9015', la)", "message('K9016', lb)",
             "sa = 'a'", "sa += 'b'", "sb = sa", "sb += 'c'", "message('K9017', sa)",
             "dc = {}", "dc += {'x': 1}", "hold = [dc]", "set_variable('sv', dc)", "dc += {'z': 3}", "message('K9018', hold[0].keys())", "message('K9019', get_variable('sv').keys())",
             "dd = {'p': 1}", "dd += {'q': 2}", "foreach k, v : dd", "  dd += {'r': 3}", "endforeach", "de = dd", "de += {'s': 4}", "message('K9020', dd.keys())"]
    exp = {'K9001': '[1, 2]', 'K9002': '[1, 2, 3]', 'K9003': "['k']", 'K9004': "['j', 'k']", 'K9005': 'x', 'K9006': '1', 'K9007': '[[1], [1]]', 'K9008': '[1, 3]', 'K9009': '2',
           'K9010': 'false', 'K9011': 'true', 'K9012': '[1]', 'K9013': "['x']", 'K9014': "['x', 'y']", 'K9015': '[1, 3]', 'K9016': '[1, 2]', 'K9017': 'ab',
           'K9018': "['x']", 'K9019': "['x']", 'K9020': "['p', 'q', 'r']"}
    return lines, exp


REJECTED = ["x = 1 < 2 < 3", "x = - - 1", "x = not not true" if False else "x = 1 == 1 == 1", "x = true ? false ? 1 : 2 : 3", "x = 1 + 'a'", "x = 'a' + 1", "x = [1][5]", "x = [1][-2]", "x = 7 / 0",
            "x = 7 % 0", "x = 1 and true", "x = 'a' < 1", "x = {'a': 1}['b']", "if 1\nendif", "x = true + true"]


# nested ternaries are rejected wherever the inner one sits (condition, true branch, false branch, chains, inside brackets of a branch)
REJECTED += ["x = false ? 1 : true ? 2 : 3", "x = true ? 1 : false ? 2 : 3", "x = false ? 1 : false ? 2 : true ? 3 : 4", "x = (true ? true : false) ? 1 : 2" if False else "x = true ? (false ? 1 : 2) : 3",
             "x = true ? 1 : (false ? 2 : 3)", "x = [true ? 1 : false ? 2 : 3]", "message(false ? 'a' : true ? 'b' : 'c')"]
# no implicit conversion in the logical operators, in any operand position that is evaluated, whatever the result is used for
NONBOOL = ['1', "'abc'", '[]', "{'k': 1}", '[true]']
for _v in NONBOOL:
    REJECTED += [f'x = false or {_v}', f'x = true and {_v}', f'x = {_v} or true', f'x = {_v} and true', f'x = not {_v}', f'x = {_v} ? 1 : 2',
                 f'y = [false or {_v}]', f'message(true and {_v})', f'x = false or (false or {_v})', f'if {_v}\nendif']


# a boolean is not an integer: where the reference asks for an integer (an index, a position) a boolean is an error, and a boolean is
# never EQUAL to an integer (membership).  Python's bool is a subclass of int, so the typed operators let it through: recorded finding.
BOOL_AS_INT_REJECTED = ["x = [10, 20][true]", "x = 'abc'.substring(true)", "x = [1, 2].get(false)"]
BOOL_AS_INT_VALUES = [('true in [1]', False), ('[1].contains(true)', False), ('0 in [false]', False), ('true not in [1, 2]', True)]
REJECTED += BOOL_AS_INT_REJECTED


def range_cases():
    """range(stop) / range(start, stop) / range(start, stop, step): docs/yaml/functions/range.yaml — start >= 0, stop >= start,
    step >= 1, anything else is an error; the values are start, start + step, ... below stop"""
    ok, bad = [], []
    for a in (-1, 0, 2, 5):
        for b in (None, -1, 0, 1, 2, 5, 9):
            for c in (None, -1, 0, 1, 2, 3):
                if b is None and c is not None:
                    continue
                txt = 'range(' + ', '.join(str(x) for x in (a, b, c) if x is not None) + ')'
                start, stop, step = (0, a, 1) if b is None else (a, b, 1 if c is None else c)
                if start < 0 or stop < start or step < 1:
                    bad.append(f"foreach i : {txt}\nendforeach")
                    bad.append(f"x = {txt}")
                else:
                    ok.append((txt, list(range(start, stop, step))))
    # a computed step of zero is as wrong as a literal one
    bad.append("n = 4\nforeach i : range(0, 3, n % 2)\nendforeach")
    return ok, bad


def _prog_chunk(chunk):
    fails, nt = [], 0
    for kind, payload in chunk:
        if kind == 'ranges':
            lines = []
            for i, (t, v) in enumerate(payload):
                lines += [f'r{i} = []', f'foreach i : {t}', f'  r{i} += [i]', 'endforeach', f"message('K{i}', r{i})", f"message('K{1000 + i}', {t}[{len(v) - 1}])" if v else f"message('K{1000 + i}', 'empty')"]
            rc, out, tail = run_program(lines)
            if rc != 0:
                fails.append({'case': {'program': 'ranges'}, 'stage': 'run', 'detail': 'a valid range() was rejected: ' + tail[-200:]})
                continue
            for i, (t, v) in enumerate(payload):
                nt += 1
                if out.get(f'K{i}') != fmt(v) or out.get(f'K{1000 + i}') != (str(v[-1]) if v else 'empty'):
                    fails.append({'case': {'expression': t}, 'stage': 'value', 'detail': f'foreach over {t} visits {out.get("K%d" % i)!r} (last element by index: {out.get("K%d" % (1000 + i))!r}), the language reference gives {fmt(v)!r}'})
            continue
        if kind == 'exprs':
            lines = [f"message('K{i}', {t})" for i, (t, v) in enumerate(payload)]
            rc, out, tail = run_program(lines)
            if rc != 0:
                fails.append({'case': {'program': lines[:3]}, 'stage': 'run', 'detail': 'a well-typed program failed: ' + tail[-200:]})
                continue
            for i, (t, v) in enumerate(payload):
                nt += 1
                if out.get(f'K{i}') != fmt(v):
                    fails.append({'case': {'expression': t}, 'stage': 'value', 'detail': f'meson computes {out.get("K%d" % i)!r}, the language reference gives {fmt(v)!r}'})
        elif kind == 'values':
            lines, exp = value_semantics_program()
            rc, out, tail = run_program(lines)
            nt += len(exp)
            if rc != 0:
                fails.append({'case': {'program': 'value-semantics'}, 'stage': 'run', 'detail': tail[-300:]})
                continue
            for k, v in exp.items():
                if out.get(k) != v:
                    fails.append({'case': {'check': k, 'program': 'value-semantics'}, 'stage': 'value', 'detail': f'{k}: meson prints {out.get(k)!r}, expected {v!r}'})
        else:
            rc, out, tail = run_program([payload, "message('K1', 'reached')"])
            nt += 1
            if rc == 0:
                fails.append({'case': {'program': payload}, 'stage': 'reject', 'detail': 'an erroneous program was accepted'})
            elif 'Traceback' in tail or 'Unhandled python exception' in tail:
                fails.append({'case': {'program': payload}, 'stage': 'reject', 'detail': 'rejected with an internal error: ' + tail[-200:]})
    return len(chunk), nt, fails


def _rand_chunk(chunk):
    """random well-typed expressions printed with minimal parentheses against the reference evaluator"""
    from bounded import exprgen
    fails, nt = [], 0
    for seed in chunk:
        rnd = random.Random(seed)
        items = [exprgen.expression(rnd) for _ in range(60)]
        lines = [f"message('K{i}', {exprgen.show(t)})" for i, (t, v) in enumerate(items)]
        rc, out, tail = run_program(lines)
        if rc != 0:
            # find the offending expression by bisection of the program
            bad = None
            for i, (t, v) in enumerate(items):
                rc1, _o, tl = run_program([lines[i]])
                if rc1 != 0:
                    bad = (exprgen.show(t), tl)
                    break
            fails.append({'case': {'generator_seed': seed, 'expression': bad[0] if bad else None}, 'stage': 'run', 'detail': 'a well-typed expression was rejected: ' + (bad[1][-200:] if bad else tail[-200:])})
            continue
        for i, (t, v) in enumerate(items):
            nt += 1
            if out.get(f'K{i}') != fmt(v):
                fails.append({'case': {'generator_seed': seed, 'expression': exprgen.show(t)}, 'stage': 'value', 'detail': f'meson computes {out.get("K%d" % i)!r}, the language reference gives {fmt(v)!r}'})
    return len(chunk), nt, fails


def run(REG, tier, seed, jobs):
    rnd = random.Random(seed)
    ex = gen_exprs(rnd, 0)
    rok, rbad = range_cases()
    tasks = [('exprs', ex[i:i + 40]) for i in range(0, len(ex), 40)] + [('values', None)] + [('reject', p) for p in REJECTED + rbad] + [('ranges', rok)]
    ev, nt, fails = pmap(_prog_chunk, chunked(iter(tasks), 1), jobs)
    m = 24 if tier == 'quick' else 400
    ev2, nt2, fails2 = pmap(_rand_chunk, chunked(iter([seed * 6700417 + i for i in range(m)]), 1), jobs)
    rpart = {'name': 'C01/bounded/random-expressions-vs-reference-evaluator', 'function': 'meson setup --backend=none (real parser and interpreter)', 'bound': f'{m} programs x 60 random well-typed expressions of depth <= 4 (integer arithmetic with floor division and modulo, unary minus, comparisons, and / or / not, string concatenation and equality, array index / in / not in, a ternary at the top), printed with minimal parentheses',
             'evaluations': ev2, 'distinct_nontrivial': nt2, 'rule': 'every expression', 'exhaustive': False, 'failures': fails2}
    return {'parts': [rpart, {'name': 'C01/bounded/programs-vs-language-reference', 'function': 'meson setup --backend=none (real interpreter)', 'bound': f'{len(ex)} expressions (all quotient/modulo sign combinations over {INTS}, all indices of a 4-array, precedence, logic, in/not in, escapes), one value-semantics program (20 checks: aliasing with +=, foreach break/continue, short circuit, get_variable), {len(REJECTED)} programs that must be rejected, range() over start x stop x step in small values including negative and zero ({len(rok)} valid progressions compared element-wise, {len(rbad)} invalid calls that must be rejected)',
                       'evaluations': ev, 'distinct_nontrivial': nt, 'rule': 'each expression / check / rejected program counts once', 'exhaustive': False, 'failures': fails}]}


CHECKS = {'C01/bounded/random-expressions-vs-reference-evaluator': (_rand_chunk, lambda c: c['generator_seed'])}
