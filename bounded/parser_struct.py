"""structured programs for the C02 round-trip check: valid statements / blocks with every kind of trivia (blank, tab,
continuation, comment, blank line, nothing) at every token boundary and at the end of the text (with and without a
final newline).  Token soups almost never produce complete blocks; these do."""

TEMPLATES = [
    ['a', '=', '1'], ['f', '(', 'a', ',', 'b', ':', '1', ')'], ['a', '=', '[', '1', ',', '2', ',', ']'], ['a', '=', '{', "'k'", ':', '1', '}'],
    ['x', '=', 'a', '?', 'b', ':', 'c'], ['a', '.', 'b', '(', ')', '.', 'c', '(', '1', ')'], ['a', '+=', 'not', 'b', 'and', '-', '1', '<', '2'],
    ['if', 'a', 'NL', 'endif'], ['if', 'a', 'NL', 'b', '=', '1', 'NL', 'endif'], ['if', 'a', 'NL', 'elif', 'b', 'NL', 'else', 'NL', 'endif'],
    ['foreach', 'x', ':', 'a', 'NL', 'endforeach'], ['foreach', 'k', ',', 'v', ':', 'd', 'NL', 'continue', 'NL', 'endforeach'],
    ['foreach', 'x', ':', 'a', 'NL', 'if', 'x', 'NL', 'break', 'NL', 'endif', 'NL', 'endforeach'],
    ['if', 'a', 'NL', 'foreach', 'x', ':', 'a', 'NL', 'endforeach', 'NL', 'endif'],
    ['if', 'a', 'NL', 'if', 'b', 'NL', 'endif', 'NL', 'else', 'NL', 'endif'],
    ['a', '=', 'f', '(', "'''m\nn'''", ',', "f'x'", ')'],
    # the two-word operator `not in` with trivia between the words (continuation; newline and comment inside brackets)
    ['x', '=', 'a', 'not', 'in', 'b'], ['f', '(', 'a', 'not', 'in', 'b', ')'], ['f', '(', 'a', 'not', '\n', 'in', 'b', ')'], ['y', '=', '[', 'a', 'not', '#c\n', ' ', 'in', 'b', ']'],
    ['if', 'a', 'not', 'in', 'b', 'and', 'not', 'c', 'NL', 'endif'],
    # escape sequences in every kind of string literal (the printer must reproduce the SOURCE spelling)
    ['a', '=', "f'it\\'s @x@'"], ['a', '=', "'q\\\\n\\t\\''"], ['a', '=', "f'a\\tb\\\\c\\x41'"], ['f', '(', "f'''m\\t\nn'''", ',', "'''r\\'s'''", ')'],
    ['a', '=', "'\\d\\N{DIGIT ONE}\\101'"], ['a', '=', "f'@x@\\n'", '+', "'\\u00e9'"], ['testcase', 'expect_error', '(', "'s'", ')', 'NL', 'endtestcase'],
]
TRIVIA = ['', ' ', '  ', '\\\n', ' \\\n ', '\t']
NLS = ['\n', ' ', '\n\n', ' \n', '#c\n', ' #c\n ', '\n  ']
ENDS = ['', ' ', '#c', ' #c', '\n', '\n\n', ' \n', '\n#c', '\n ', '  # c ']


def _word(t):
    return t[0].isalnum() or t[0] in "_'"


def render(tpl, fill, end):
    out = []
    last = len(tpl) - 1
    for i, t in enumerate(tpl):
        if t == 'NL':
            out.append(fill[i] if fill[i] in NLS else '\n')
            continue
        out.append(t)
        if i < last and tpl[i + 1] != 'NL':
            f = fill[i] if fill[i] in TRIVIA else ''
            if f == '' and _word(t) and _word(tpl[i + 1]):
                f = ' '
            out.append(f)
    return ''.join(out) + end


def structured(rnd, per_template):
    for tpl in TEMPLATES:
        base = [None] * len(tpl)
        for end in ENDS:
            yield render(tpl, base, end)
            for i in range(len(tpl)):                      # one boundary at a time, every kind of trivia
                for f in (NLS if tpl[i] == 'NL' else TRIVIA):
                    fill = list(base)
                    fill[i] = f
                    yield render(tpl, fill, end)
        for _ in range(per_template):
            fill = [rnd.choice(NLS) if t == 'NL' else rnd.choice(TRIVIA) for t in tpl]
            yield render(tpl, fill, rnd.choice(ENDS))
    for a in TEMPLATES[:15]:                               # two statements in a row
        for b in TEMPLATES[:15]:
            for sep in ('\n', '\n\n', ' #c\n'):
                for end in ('', '\n', ' #c'):
                    yield render(a, [None] * len(a), '') + sep + render(b, [None] * len(b), end)
