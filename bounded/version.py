"""C19 bounded stand-ins: the tokeniser (regex finditer) of Version.__init__ against the spec tokeniser,
and the end-to-end statement on version strings.  Labelled bounded; never counted as proved."""
import itertools, operator, random
from bounded.util import strings, chunked, pmap
from specs.version import spec_toks, vcmp, apply_op, op_of, rest_of

ALPHA = ['0', '1', '9', 'a', 'Z', '.', '-', '_', '+', '~', ' ', 'é', '٣']


def _tok_chunk(chunk):
    from mesonbuild.utils.universal import Version
    fails = []
    nt = 0
    for s in chunk:
        got = Version(s)._v
        exp = spec_toks(s)
        if len(exp) >= 2:
            nt += 1
        if got != exp or any(type(a) is not type(b) for a, b in zip(got, exp)):
            fails.append({'case': {'s': s}, 'detail': f'Version({s!r})._v == {got!r}, spec tokenisation {exp!r}'})
    return len(chunk), nt, fails


def _cmp_chunk(chunk):
    from mesonbuild.utils.universal import Version, version_compare
    fails = []
    nt = 0
    OPS = {'<': operator.lt, '<=': operator.le, '>': operator.gt, '>=': operator.ge, '==': operator.eq, '!=': operator.ne, '=': operator.eq, '': operator.eq}
    for a, b in chunk:
        c = vcmp(spec_toks(a), spec_toks(b), 0)
        if c != 0:
            nt += 1
        for sym, op in OPS.items():
            for pad in ('', ' '):
                got = version_compare(a, sym + pad + b)
                exp = apply_op(op, c)
                if got != exp:
                    fails.append({'case': {'vstr1': a, 'vstr2': sym + pad + b}, 'detail': f'version_compare gives {got}, order spec gives {exp}'})
        va, vb = Version(a), Version(b)
        tri = [va < vb, va == vb, va > vb]
        if sum(tri) != 1 or (va <= vb) != (tri[0] or tri[1]) or (va < vb) != (vb > va) or (tri[1] and hash(va) != hash(vb)):
            fails.append({'case': {'a': a, 'b': b}, 'detail': 'order axioms violated'})
    return len(chunk) * 16, nt, fails


def run(REG, tier, seed, jobs):
    parts = []
    n = 4 if tier == 'quick' else 5
    ev, nt, fails = pmap(_tok_chunk, chunked(strings(ALPHA, n), 20000), jobs)
    parts.append({'name': 'C19/bounded/Version.__init__==spec_toks', 'function': 'Version.__init__', 'bound': f'all strings of <= {n} characters over {ALPHA!r}',
                  'evaluations': ev, 'distinct_nontrivial': nt, 'rule': 'non-trivial: the spec tokenisation has >= 2 components', 'exhaustive': True, 'failures': fails})
    vs = [s for s in strings(['1', '2', '10', 'a', 'b', '.', '-'], 3)]
    rnd = random.Random(seed)
    pairs = list(itertools.product(vs, vs))
    if tier == 'quick':
        pairs = rnd.sample(pairs, 20000)
    ev, nt, fails = pmap(_cmp_chunk, chunked(iter(pairs), 2000), jobs)
    parts.append({'name': 'C19/bounded/version_compare-vs-order', 'function': 'version_compare', 'bound': f'{len(pairs)} pairs of version strings of <= 3 fragments over 1,2,10,a,b,.,- x 8 operator spellings x 2 spacings',
                  'evaluations': ev, 'distinct_nontrivial': nt, 'rule': 'non-trivial: the two versions are not equal in the order', 'exhaustive': tier != 'quick', 'failures': fails})
    return {'parts': parts}


CHECKS = {
    'C19/bounded/Version.__init__==spec_toks': (_tok_chunk, lambda c: c['s']),
    'C19/bounded/version_compare-vs-order': (_cmp_chunk, lambda c: (c.get('vstr1', c.get('a')), (c.get('vstr2') or c.get('b')).lstrip('<>=! '))),
}
