"""C19 bounded stand-ins: the tokeniser (regex finditer) of Version.__init__ against the spec tokeniser,
and the end-to-end statement on version strings.  Labelled bounded; never counted as proved."""
import itertools, operator, random
from bounded.util import strings, chunked, pmap
from specs.version import spec_toks, vcmp, apply_op, op_of, rest_of

ALPHA = ['0', '1', '9', 'a', 'Z', '.', '-', '_', '+', '~', ' ', 'é', '٣']


def _tok_chunk(chunk):
    from mesonbuild.utils.universal import Version
    fails = []
    nt = 0
    for s in chunk:
        got = Version(s)._v
        exp = spec_toks(s)
        if len(exp) >= 2:
            nt += 1
        if got != exp or any(type(a) is not type(b) for a, b in zip(got, exp)):
            fails.append({'case': {'s': s}, 'detail': f'Version({s!r})._v == {got!r}, spec tokenisation {exp!r}'})
    return len(chunk), nt, fails


def _cmp_chunk(chunk):
    from mesonbuild.utils.universal import Version, version_compare
    fails = []
    nt = 0
    OPS = {'<': operator.lt, '<=': operator.le, '>': operator.gt, '>=': operator.ge, '==': operator.eq, '!=': operator.ne, '=': operator.eq, '': operator.eq}
    for a, b in chunk:
        c = vcmp(spec_toks(a), spec_toks(b), 0)
        if c != 0:
            nt += 1
        for sym, op in OPS.items():
            for pad in ('', ' '):
                got = version_compare(a, sym + pad + b)
                exp = apply_op(op, c)
                if got != exp:
                    fails.append({'case': {'vstr1': a, 'vstr2': sym + pad + b}, 'detail': f'version_compare gives {got}, order spec gives {exp}'})
        va, vb = Version(a), Version(b)
        tri = [va < vb, va == vb, va > vb]
        if sum(tri) != 1 or (va <= vb) != (tri[0] or tri[1]) or (va < vb) != (vb > va) or (tri[1] and hash(va) != hash(vb)):
            fails.append({'case': {'a': a, 'b': b}, 'detail': 'order axioms violated'})
    return len(chunk) * 16, nt, fails


VERS = ['0.9', '1.0', '1.0.1', '1.1', '2.0', '2.0a', '3']
RANGE_OPS = ['>=', '>', '<=', '<', '==', '!=', '']


def _range_chunk(chunk):
    """the range built from a list of checks contains every version satisfying all checks and no version violating a
    non-!= check; intersect is set intersection; always() answers only when every / no version of the range satisfies"""
    from mesonbuild.utils.universal import Version, version_compare, version_check_to_range, Range
    probes = [Version(v) for v in VERS + ['0', '1.0.0.1', '9']]
    fails, nt = [], 0
    for checks in chunk:
        checks = list(checks)
        r = version_check_to_range(checks)
        nt += len(checks) >= 2
        for pv in probes:
            ps = pv._s
            allok = all(version_compare(ps, c) for c in checks)
            nonne_viol = any(not version_compare(ps, c) for c in checks if not c.startswith('!='))
            inr = pv in r
            if allok and not inr:
                fails.append({'case': {'checks': checks, 'version': ps}, 'stage': 'range', 'detail': f'{ps} satisfies all checks but is not in the range {r}'})
                break
            if inr and nonne_viol:
                fails.append({'case': {'checks': checks, 'version': ps}, 'stage': 'range', 'detail': f'{ps} violates a non-!= check but is in the range {r}'})
                break
    return len(chunk), nt, fails


def _algebra_chunk(chunk):
    from mesonbuild.utils.universal import Version, version_check_to_range
    probes = [Version(v) for v in VERS + ['0', '1.0.0.1', '9']]
    fails, nt = [], 0
    for ca, cb in chunk:
        a, b = version_check_to_range(list(ca)), version_check_to_range(list(cb))
        i = a.intersect(b)
        nt += 1
        for pv in probes:
            if (pv in i) != ((pv in a) and (pv in b)):
                fails.append({'case': {'a': list(ca), 'b': list(cb), 'version': pv._s}, 'stage': 'intersect', 'detail': f'{pv._s} in intersect = {pv in i}, in a = {pv in a}, in b = {pv in b}'})
                break
        al = a.always(b)
        ina = [pv for pv in probes if pv in a]
        if al is True and any(pv not in b for pv in ina):
            fails.append({'case': {'a': list(ca), 'b': list(cb)}, 'stage': 'always', 'detail': 'always() is True but some version of the range is outside the inner range'})
        if al is False and any(pv in b for pv in ina):
            fails.append({'case': {'a': list(ca), 'b': list(cb)}, 'stage': 'always', 'detail': 'always() is False but some version of the range is inside the inner range'})
    return len(chunk) * len(probes), nt, fails


def _method_part(tier):
    """the version_compare() method of the build language, on an ordinary string and on meson.version(): a list of constraints holds
    iff every constraint holds, `!=` ones included — through the real interpreter (one `meson setup --backend=none`)"""
    import re as _re, sys as _sys
    from bounded.lang import run_program
    _sys.path.insert(0, __import__('os').environ.get('VERIF_REPO', '/repo'))
    from mesonbuild import coredata
    from mesonbuild.utils.universal import version_compare
    cur = _re.match(r'[0-9.]+', coredata.version).group(0).rstrip('.')
    vers = [cur, '0.1', '99.0', cur + '.1']
    single = [op + v for op in ('>=', '>', '<=', '<', '==', '!=') for v in vers]
    lists = [[a] for a in single] + [[a, b] for a in single[::2] for b in single[1::3]] + [[a, b, c] for a in single[::5] for b in single[2::7] for c in single[3::6]]
    if tier == 'quick':
        lists = lists[:120]
    lines, exp = [], {}
    for recv, val in (('meson.version()', coredata.version), (f"'{cur}'", cur)):
        for cs in lists:
            i = len(exp)
            args = ', '.join("'" + c + "'" for c in cs)
            lines.append(f"message('K{i}', {recv}.version_compare({args}))")
            exp[f'K{i}'] = (recv, cs, all(version_compare(val, c) for c in cs))
    rc, out, tail = run_program(lines)
    fails = []
    if rc != 0:
        fails.append({'case': {'program': 'version_compare methods'}, 'stage': 'method', 'detail': 'the program was rejected: ' + tail[-200:]})
    else:
        for k, (recv, cs, want) in exp.items():
            if out.get(k) != ('true' if want else 'false'):
                fails.append({'case': {'receiver': recv, 'constraints': cs}, 'stage': 'method', 'detail': f'{recv}.version_compare({cs}) evaluates to {out.get(k)}, but {"every constraint holds" if want else "not every constraint holds"}'})
    return {'name': 'C19/bounded/version_compare-method-of-the-language', 'function': 'StringHolder / MesonVersionStringHolder.version_compare_method (real interpreter)',
            'bound': f'{len(lists)} constraint lists of 1-3 constraints (6 operators x 4 versions around the running meson version) on meson.version() and on an equal plain string',
            'evaluations': len(exp), 'distinct_nontrivial': len(exp), 'rule': 'every (receiver, list) pair', 'exhaustive': False, 'failures': fails}


def run(REG, tier, seed, jobs):
    parts = [_method_part(tier)]
    n = 4 if tier == 'quick' else 5
    ev, nt, fails = pmap(_tok_chunk, chunked(strings(ALPHA, n), 20000), jobs)
    parts.append({'name': 'C19/bounded/Version.__init__==spec_toks', 'function': 'Version.__init__', 'bound': f'all strings of <= {n} characters over {ALPHA!r}',
                  'evaluations': ev, 'distinct_nontrivial': nt, 'rule': 'non-trivial: the spec tokenisation has >= 2 components', 'exhaustive': True, 'failures': fails})
    vs = [s for s in strings(['1', '2', '10', 'a', 'A', 'b', '.', '-'], 3)]
    rnd = random.Random(seed)
    pairs = list(itertools.product(vs, vs))
    if tier == 'quick':
        pairs = rnd.sample(pairs, 20000)
    ev, nt, fails = pmap(_cmp_chunk, chunked(iter(pairs), 2000), jobs)
    parts.append({'name': 'C19/bounded/version_compare-vs-order', 'function': 'version_compare', 'bound': f'{len(pairs)} pairs of version strings of <= 3 fragments over 1,2,10,a,A,b,.,- x 8 operator spellings x 2 spacings',
                  'evaluations': ev, 'distinct_nontrivial': nt, 'rule': 'non-trivial: the two versions are not equal in the order', 'exhaustive': tier != 'quick', 'failures': fails})
    single = [op + v for op in RANGE_OPS for v in VERS[:5]]
    k = 2 if tier == 'quick' else 3
    lists = itertools.chain.from_iterable(itertools.product(single, repeat=j) for j in range(0, k + 1))
    ev, nt, fails = pmap(_range_chunk, chunked(lists, 500), jobs)
    parts.append({'name': 'C19/bounded/version_check_to_range-vs-version_compare', 'function': 'version_check_to_range', 'bound': f'all check lists of <= {k} checks over {len(single)} single checks (7 operator spellings x 5 versions), probed with 10 versions',
                  'evaluations': ev, 'distinct_nontrivial': nt, 'rule': 'non-trivial: at least two checks', 'exhaustive': True, 'failures': fails})
    s2 = [(c,) for c in single[::2]] + [(a, b) for a in single[::5] for b in single[::7]]
    pairs = list(itertools.product(s2, s2))
    if tier == 'quick':
        pairs = rnd.sample(pairs, min(len(pairs), 6000))
    ev, nt, fails = pmap(_algebra_chunk, chunked(iter(pairs), 300), jobs)
    parts.append({'name': 'C19/bounded/range-intersect-and-always', 'function': 'Range.intersect / Range.always', 'bound': f'{len(pairs)} pairs of ranges built from check lists, probed with 10 versions',
                  'evaluations': ev, 'distinct_nontrivial': nt, 'rule': 'every pair', 'exhaustive': tier != 'quick', 'failures': fails})
    return {'parts': parts}


CHECKS = {
    'C19/bounded/version_check_to_range-vs-version_compare': (_range_chunk, lambda c: tuple(c['checks'])),
    'C19/bounded/range-intersect-and-always': (_algebra_chunk, lambda c: (tuple(c['a']), tuple(c['b']))),
    'C19/bounded/Version.__init__==spec_toks': (_tok_chunk, lambda c: c['s']),
    'C19/bounded/version_compare-vs-order': (_cmp_chunk, lambda c: (c.get('vstr1', c.get('a')), (c.get('vstr2') or c.get('b')).lstrip('<>=! '))),
}
