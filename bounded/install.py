"""C11 bounded stand-ins (native): real set_mode / sanitize_permissions on real temporary files (resulting mode bits),
should_install truth table, DESTDIR re-rooting of absolute and relative destinations."""
import itertools, os, stat, tempfile
from bounded.util import chunked, pmap


def _mode_chunk(chunk):
    from mesonbuild import minstall
    from mesonbuild.utils.universal import FileMode
    fails, nt = [], 0
    for src_mode, perms, owner_given, umask in chunk:
        with tempfile.TemporaryDirectory() as d:
            p = os.path.join(d, 'f')
            open(p, 'w').close()
            os.chmod(p, src_mode)
            mode = None
            if perms is not None or owner_given:
                mode = FileMode(perms, os.getuid() if owner_given else None, None)
            minstall.set_mode(p, mode, umask)
            got = stat.S_IMODE(os.stat(p).st_mode)
        if umask == 'preserve' and perms is None:
            exp = src_mode
        elif perms is not None:
            exp = FileMode.perms_s_to_bits(perms)
        else:
            exp = (0o777 if src_mode & 0o111 else 0o666) & ~umask
        nt += 1
        if got != exp:
            fails.append({'case': {'source_mode': oct(src_mode), 'install_mode_perms': perms, 'owner_given': owner_given, 'umask': umask if isinstance(umask, str) else oct(umask)},
                          'stage': 'mode', 'detail': f'installed mode {oct(got)}, expected {oct(exp)} (declared install_mode or else default permissions masked by install_umask)'})
    return len(chunk), nt, fails


def _link_chunk(chunk):
    """permissions of an installed symbolic link never reach through the link: the file it points to (possibly outside the
    staged tree) keeps its mode, whatever install_mode / install_umask say"""
    from mesonbuild import minstall
    from mesonbuild.utils.universal import FileMode
    fails, nt = [], 0
    for target_mode, perms, umask, relative in chunk:
        with tempfile.TemporaryDirectory() as d:
            outside = os.path.join(d, 'outside')
            stage = os.path.join(d, 'stage', 'share')
            os.makedirs(outside)
            os.makedirs(stage)
            tgt = os.path.join(outside, 'secret') if not relative else os.path.join(stage, 'data.txt')
            open(tgt, 'w').close()
            os.chmod(tgt, target_mode)
            link = os.path.join(stage, 'link')
            os.symlink(os.path.relpath(tgt, stage) if relative else tgt, link)
            mode = FileMode(perms, None, None) if perms is not None else None
            nt += 1
            try:
                minstall.set_mode(link, mode, umask)
            except Exception as ex:
                fails.append({'case': {'target_mode': oct(target_mode), 'install_mode_perms': perms, 'umask': umask if isinstance(umask, str) else oct(umask), 'relative_target': relative}, 'stage': 'symlink', 'detail': f'raised {type(ex).__name__}: {ex}'})
                continue
            got = stat.S_IMODE(os.stat(tgt).st_mode)
            if got != target_mode and perms is None:
                fails.append({'case': {'target_mode': oct(target_mode), 'install_mode_perms': perms, 'umask': umask if isinstance(umask, str) else oct(umask), 'relative_target': relative},
                              'stage': 'symlink', 'detail': f'setting the default permissions of an installed symbolic link changed the mode of its target from {oct(target_mode)} to {oct(got)}' + ('' if relative else ' (a file outside the staged tree)')})
    return len(chunk), nt, fails


def _filter_chunk(chunk):
    from mesonbuild import minstall

    class D:
        pass
    fails, nt = [], 0
    for sub, tag, skips, tags in chunk:
        inst = object.__new__(minstall.Installer)
        inst.skip_subprojects = list(skips)
        inst.tags = list(tags) if tags is not None else None
        d = D()
        d.subproject, d.tag = sub, tag
        got = inst.should_install(d)
        exp = not (sub and (sub in skips or '*' in skips)) and not (tags and tag not in tags)
        nt += 1
        if got != exp:
            fails.append({'case': {'subproject': sub, 'tag': tag, 'skip_subprojects': list(skips), 'tags': tags}, 'stage': 'filter', 'detail': f'should_install {got}, expected {exp}'})
    return len(chunk), nt, fails


def _dest_chunk(chunk):
    from mesonbuild import minstall
    fails, nt = [], 0
    for destdir, prefix, path in chunk:
        fullprefix = minstall.destdir_join(destdir, prefix)
        got = minstall.get_destdir_path(destdir, fullprefix, path)
        if os.path.isabs(path):
            exp = os.path.normpath(destdir + path) if destdir else path
        else:
            exp = os.path.join(os.path.normpath(destdir + prefix) if destdir else prefix, path)
        nt += 1
        if os.path.normpath(got) != os.path.normpath(exp) or (destdir and not os.path.normpath(got).startswith(os.path.normpath(destdir))):
            fails.append({'case': {'destdir': destdir, 'prefix': prefix, 'path': path}, 'stage': 'destdir', 'detail': f'destination {got!r}, expected {exp!r} (confined to DESTDIR)'})
    return len(chunk), nt, fails


def run(REG, tier, seed, jobs):
    parts = []
    cases = [(sm, pm, og, um) for sm in (0o644, 0o666, 0o755, 0o775, 0o600) for pm in (None, 'rw-r-----', 'rwxr-xr-x') for og in (False, True) for um in (0o022, 0o027, 0o077, 0, 'preserve')]
    ev, nt, fails = pmap(_mode_chunk, chunked(iter(cases), 10), jobs)
    parts.append({'name': 'C11/bounded/installed-mode-bits', 'function': 'set_mode / sanitize_permissions', 'bound': f'{len(cases)} cases: source mode x declared permissions x owner given x install_umask, on real temporary files',
                  'evaluations': ev, 'distinct_nontrivial': nt, 'rule': 'every case', 'exhaustive': True, 'failures': fails})
    cases = [(tm, pm, um, rel) for tm in (0o600, 0o644, 0o755, 0o400) for pm in (None,) for um in (0o022, 0o077, 0, 'preserve') for rel in (False, True)]
    ev, nt, fails = pmap(_link_chunk, chunked(iter(cases), 8), jobs)
    parts.append({'name': 'C11/bounded/symlink-target-untouched', 'function': 'set_mode / sanitize_permissions on a symbolic link', 'bound': f'{len(cases)} cases: mode of the link target x install_umask x target outside / inside the staged tree',
                  'evaluations': ev, 'distinct_nontrivial': nt, 'rule': 'every case', 'exhaustive': True, 'failures': fails})
    cases = [(s, t, sk, tg) for s in ('', 'sub', 'other') for t in (None, 'devel', 'runtime') for sk in ((), ('sub',), ('*',), ('x', 'sub')) for tg in (None, (), ('devel',), ('runtime', 'man'))]
    ev, nt, fails = pmap(_filter_chunk, chunked(iter(cases), 40), jobs)
    parts.append({'name': 'C11/bounded/tag-and-subproject-filter', 'function': 'Installer.should_install', 'bound': f'{len(cases)} combinations of subproject x tag x --skip-subprojects x --tags',
                  'evaluations': ev, 'distinct_nontrivial': nt, 'rule': 'every case', 'exhaustive': True, 'failures': fails})
    cases = [(d, p, x) for d in ('', '/tmp/dest', '/d d/é') for p in ('/usr', '/usr/local', '/') for x in ('share/x', 'bin', '/etc/x y', '/opt/é/f', 'a/../b')]
    ev, nt, fails = pmap(_dest_chunk, chunked(iter(cases), 20), jobs)
    parts.append({'name': 'C11/bounded/destdir-rerooting', 'function': 'get_destdir_path / destdir_join', 'bound': f'{len(cases)} combinations of DESTDIR x prefix x destination (absolute, relative, spaces, unicode)',
                  'evaluations': ev, 'distinct_nontrivial': nt, 'rule': 'every case', 'exhaustive': True, 'failures': fails})
    return {'parts': parts}


CHECKS = {'C11/bounded/installed-mode-bits': (_mode_chunk, lambda c: (int(c['source_mode'], 8), c['install_mode_perms'], c['owner_given'], c['umask'] if c['umask'] == 'preserve' else int(c['umask'], 8)))}
