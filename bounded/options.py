"""C07 bounded stand-ins (native): the documented precedence through the real OptionStore for every subset of the
value sources (2^3 top level, 2^8 subproject) and several option kinds; buildtype -> debug/optimization;
prefix-dependent directory defaults; rejection of invalid values and validity of stored ones.  Labelled bounded."""
import copy, itertools, random
from bounded.util import chunked, pmap

SRC = ['parent_opt', 'own_opt', 'mf_opt', 'cmd_opt', 'parent_subopt', 'spcall_opt', 'mf_subopt', 'cmd_subopt']


def mk_option(kind):
    from mesonbuild import options as O
    if kind == 'integer':
        return O.UserIntegerOption('x_opt', 'd', 4, min_value=2, max_value=40), [str(10 + i) for i in range(8)], 4, int
    if kind == 'combo':
        ch = ['d'] + [f'v{i}' for i in range(8)]
        return O.UserComboOption('x_opt', 'd', 'd', choices=ch), [f'v{i}' for i in range(8)], 'd', str
    if kind == 'string':
        return O.UserStringOption('x_opt', 'd', 'd'), [f's{i}' for i in range(8)], 'd', str
    if kind == 'boolean':
        return O.UserBooleanOption('x_opt', 'd', False), ['true', 'false', 'true', 'false', 'true', 'false', 'true', 'false'], False, lambda v: v == 'true'
    if kind == 'feature':
        return O.UserFeatureOption('x_opt', 'd', 'auto'), ['enabled', 'disabled', 'auto', 'enabled', 'disabled', 'auto', 'enabled', 'disabled'], 'auto', str
    raise KeyError(kind)


def resolve(kind, mask):
    from mesonbuild.options import OptionStore, OptionKey, UserStringOption
    K = OptionKey
    opt, vals, default, conv = mk_option(kind)
    present = {s: bool(mask >> i & 1) for i, s in enumerate(SRC)}
    val = dict(zip(SRC, vals))
    st = OptionStore(False)
    st.add_system_option('prefix', UserStringOption('prefix', 'd', '/usr/local'))
    st.add_system_option('x_opt', opt)
    top_pd, cmd, mf = {}, {}, {}
    if present['parent_opt']:
        top_pd[K('x_opt')] = val['parent_opt']
    if present['parent_subopt']:
        top_pd[K('x_opt', 'sub')] = val['parent_subopt']
    if present['mf_opt']:
        mf[K('x_opt')] = val['mf_opt']
    if present['mf_subopt']:
        mf[K('x_opt', 'sub')] = val['mf_subopt']
    if present['cmd_opt']:
        cmd[K('x_opt')] = val['cmd_opt']
    if present['cmd_subopt']:
        cmd[K('x_opt', 'sub')] = val['cmd_subopt']
    st.initialize_from_top_level_project_call(top_pd, cmd, mf)
    top = st.get_value_for('x_opt')
    own = {K('x_opt'): val['own_opt']} if present['own_opt'] else {}
    spc = {K('x_opt'): val['spcall_opt']} if present['spcall_opt'] else {}
    st.initialize_from_subproject_call('sub', spc, own, cmd, mf)
    sub = st.get_value_for('x_opt', 'sub')
    # documented order: the last present source wins
    etop = default
    for s in ('parent_opt', 'mf_opt', 'cmd_opt'):
        if present[s]:
            etop = conv(val[s])
    esub = etop
    for s in SRC:
        if present[s]:
            esub = conv(val[s])
    return (top, sub), (etop, esub), present


def resolve_pm(name, machine, mask, noise):
    """the same eight sources for a PER-MACHINE builtin option (pkg_config_path, cmake_prefix_path) in a cross build: the
    sources speak of the tested machine's key; with `noise` every source also gives another value for the OTHER machine, which
    must not leak"""
    from mesonbuild.options import OptionStore, OptionKey
    from mesonbuild.mesonlib import MachineChoice
    M = MachineChoice.BUILD if machine == 'build' else MachineChoice.HOST
    other = MachineChoice.HOST if machine == 'build' else MachineChoice.BUILD
    K = lambda sub=None, m=M: OptionKey(name, sub, m)
    present = {s: bool(mask >> i & 1) for i, s in enumerate(SRC)}
    val = {s: f'/{machine}/{s}' for s in SRC}
    st = OptionStore(True)
    st.init_builtins()
    top_pd, cmd, mf, own, spc = {}, {}, {}, {}, {}
    where = {'parent_opt': (top_pd, None), 'parent_subopt': (top_pd, 'sub'), 'mf_opt': (mf, None), 'mf_subopt': (mf, 'sub'), 'cmd_opt': (cmd, None),
             'cmd_subopt': (cmd, 'sub'), 'own_opt': (own, None), 'spcall_opt': (spc, None)}
    for s_, (d, sub) in where.items():
        if present[s_]:
            d[K(sub)] = val[s_]
        if noise:
            d[K(sub, other)] = f'/other/{s_}'
    st.initialize_from_top_level_project_call(top_pd, cmd, mf)
    top = st.get_value_for(K())
    st.initialize_from_subproject_call('sub', spc, own, cmd, mf)
    sub = st.get_value_for(K('sub'))
    top2 = st.get_value_for(K())
    etop = []
    for s_ in ('parent_opt', 'mf_opt', 'cmd_opt'):
        if present[s_]:
            etop = [val[s_]]
    esub = etop
    for s_ in SRC:
        if present[s_]:
            esub = [val[s_]]
    return (top, sub, top2), (etop, esub, etop), present


def _pm_chunk(chunk):
    fails, nt = [], 0
    for name, machine, mask, noise in chunk:
        try:
            got, exp, present = resolve_pm(name, machine, mask, noise)
        except Exception as ex:
            fails.append({'case': {'option': name, 'machine': machine, 'mask': mask, 'noise': noise}, 'stage': 'per-machine', 'detail': f'{type(ex).__name__}: {ex}'})
            continue
        nt += 1
        if got != exp:
            fails.append({'case': {'option': name, 'machine': machine, 'mask': mask, 'noise': noise, 'sources': [s for s in SRC if present[s]]}, 'stage': 'per-machine',
                          'detail': f'cross build, {machine} machine: (top-level, subproject, top-level afterwards) values {got!r}, documented precedence gives {exp!r}'})
    return len(chunk), nt, fails


def _mfile_chunk(chunk):
    """the machine-file source for PER-MACHINE options in a cross build, through the real `meson setup`: the native file speaks
    for the build machine, the cross file for the host machine, a [sub:built-in options] section for the subproject only"""
    import os, shutil, subprocess, sys, tempfile
    repo = os.environ.get('VERIF_REPO', '/repo')
    fails, nt = [], 0
    for mask in chunk:
        has = {n: bool(mask >> i & 1) for i, n in enumerate(('nat_top', 'nat_sub', 'cross_top', 'cross_sub'))}
        d = tempfile.mkdtemp(prefix='c07mf')
        try:
            src, build = os.path.join(d, 'src'), os.path.join(d, 'b')
            os.makedirs(os.path.join(src, 'subprojects', 'sub'))
            open(os.path.join(src, 'meson.build'), 'w').write("project('p')\nsubproject('sub')\n")
            open(os.path.join(src, 'subprojects', 'sub', 'meson.build'), 'w').write("project('sub')\n")
            nat = ("[built-in options]\npkg_config_path = '/nat/top'\n" if has['nat_top'] else '') + ("[sub:built-in options]\npkg_config_path = '/nat/sub'\n" if has['nat_sub'] else '')
            cross = "[host_machine]\nsystem = 'linux'\ncpu_family = 'x86_64'\ncpu = 'x86_64'\nendian = 'little'\n" + \
                    ("[built-in options]\npkg_config_path = '/cross/top'\n" if has['cross_top'] else '') + ("[sub:built-in options]\npkg_config_path = '/cross/sub'\n" if has['cross_sub'] else '')
            open(os.path.join(d, 'nat.ini'), 'w').write(nat)
            open(os.path.join(d, 'cross.ini'), 'w').write(cross)
            r = subprocess.run([sys.executable, os.path.join(repo, 'meson.py'), 'setup', '--backend=none', '--native-file', os.path.join(d, 'nat.ini'), '--cross-file', os.path.join(d, 'cross.ini'), build, src],
                               capture_output=True, text=True)
            case = {'mask': mask, 'sections': [n for n in has if has[n]]}
            if r.returncode != 0:
                fails.append({'case': case, 'stage': 'machine-file', 'detail': 'setup failed: ' + (r.stdout + r.stderr)[-300:]})
                continue
            code = ("import sys, json; sys.path.insert(0, %r)\nfrom mesonbuild import coredata\nfrom mesonbuild.options import OptionKey\nfrom mesonbuild.mesonlib import MachineChoice\n"
                    "cd = coredata.load(%r)\nprint(json.dumps({f'{m.name}.{s}': cd.optstore.get_value_for(OptionKey('pkg_config_path', None if s == 'top' else 'sub', m)) for m in MachineChoice for s in ('top', 'sub')}))\n") % (repo, build)
            q = subprocess.run([sys.executable, '-c', code], capture_output=True, text=True)
            nt += 1
            try:
                import json
                got = json.loads(q.stdout.strip().splitlines()[-1])
            except Exception:
                fails.append({'case': case, 'stage': 'machine-file', 'detail': 'cannot read the configuration back: ' + (q.stdout + q.stderr)[-300:]})
                continue
            exp = {'BUILD.top': ['/nat/top'] if has['nat_top'] else [], 'HOST.top': ['/cross/top'] if has['cross_top'] else []}
            exp['BUILD.sub'] = ['/nat/sub'] if has['nat_sub'] else exp['BUILD.top']
            exp['HOST.sub'] = ['/cross/sub'] if has['cross_sub'] else exp['HOST.top']
            if got != exp:
                fails.append({'case': case, 'stage': 'machine-file', 'detail': f'pkg_config_path per (machine, project): {got}, the machine files prescribe {exp}'})
        finally:
            shutil.rmtree(d, ignore_errors=True)
    return len(chunk), nt, fails


EMPTIES = [('pkg_config_path', '', []), ('cmake_prefix_path', '', []), ('force_fallback_for', '', []), ('licensedir', '', ''), ('pkg_config_path', '/a/b,/c', ['/a/b', '/c']),
           ('force_fallback_for', 'foo,bar', ['foo', 'bar']), ('force_fallback_for', 'sub/dir', ['sub/dir']), ('wrap_mode', 'nofallback', 'nofallback'), ('libdir', 'lib//x', 'lib/x'), ('bindir', 'bin', 'bin')]


def _empty_chunk(chunk):
    """a value given on the command line is the value stored (after the documented conversions: comma lists, directory
    normalisation for DIRECTORY options) — in particular an empty string stays empty / becomes the empty list"""
    from mesonbuild.options import OptionStore, OptionKey
    fails, nt = [], 0
    for name, given, want in chunk:
        for source in ('cmd', 'machine-file', 'default_options', 'configure'):
            st = OptionStore(False)
            st.init_builtins()
            k = OptionKey(name)
            try:
                if source == 'configure':
                    st.initialize_from_top_level_project_call({}, {}, {})
                    st.set_from_configure_command({k: given})
                else:
                    st.initialize_from_top_level_project_call({k: given} if source == 'default_options' else {}, {k: given} if source == 'cmd' else {}, {k: given} if source == 'machine-file' else {})
                got = st.get_value_for(k)
            except Exception as ex:
                got = f'{type(ex).__name__}: {ex}'
            nt += 1
            exp = want
            if got != exp:
                fails.append({'case': {'option': name, 'given': given, 'source': source}, 'stage': 'empty', 'detail': f'-D{name}={given!r} ({source}) is stored as {got!r}, the value given means {exp!r}'})
    return len(chunk), nt, fails


def _subprefix_chunk(chunk):
    """the prefix-dependent directory defaults follow THE prefix — the global option; a `prefix` among the default options of a
    subproject (its own, or given by subproject(default_options:)) is no reason to rewrite them"""
    from mesonbuild.options import OptionStore, OptionKey
    fails, nt = [], 0
    names = ['prefix', 'sysconfdir', 'localstatedir', 'sharedstatedir', 'libdir', 'bindir']
    for top_prefix, where, sub_prefix in chunk:
        st = OptionStore(False)
        st.init_builtins()
        st.initialize_from_top_level_project_call({OptionKey('prefix'): top_prefix} if top_prefix else {}, {}, {})
        before = {n: st.get_value_for(OptionKey(n)) for n in names}
        try:
            st.initialize_from_subproject_call('sub', {OptionKey('prefix'): sub_prefix} if where == 'call' else {}, {OptionKey('prefix'): sub_prefix} if where == 'own' else {}, {}, {})
        except Exception as ex:
            fails.append({'case': {'top_prefix': top_prefix, 'where': where, 'sub_prefix': sub_prefix}, 'stage': 'subprefix', 'detail': f'{type(ex).__name__}: {ex}'})
            continue
        after = {n: st.get_value_for(OptionKey(n)) for n in names}
        nt += 1
        if after != before:
            fails.append({'case': {'top_prefix': top_prefix, 'where': where, 'sub_prefix': sub_prefix}, 'stage': 'subprefix',
                          'detail': f'configuring a subproject whose default options name prefix={sub_prefix!r} changed the top-level values from {before} to {after}'})
    return len(chunk), nt, fails


def resolve_late(mask):
    """the same eight sources, for an option that does NOT exist yet when the two project() calls are merged: a compiler option
    (cpp_std) of a language only the subproject adds afterwards — what the sources said waits as pending and must come out in the same
    documented order"""
    from mesonbuild.options import OptionStore, OptionKey, UserComboOption
    K = OptionKey
    vals = [f'c++{n}' for n in (3, 11, 14, 17, 20, 23, 26, 98)]
    present = {s: bool(mask >> i & 1) for i, s in enumerate(SRC)}
    val = dict(zip(SRC, vals))
    st = OptionStore(False)
    st.init_builtins()
    top_pd, cmd, mf = {}, {}, {}
    if present['parent_opt']:
        top_pd[K('cpp_std')] = val['parent_opt']
    if present['parent_subopt']:
        top_pd[K('cpp_std', 'sub')] = val['parent_subopt']
    if present['mf_opt']:
        mf[K('cpp_std')] = val['mf_opt']
    if present['mf_subopt']:
        mf[K('cpp_std', 'sub')] = val['mf_subopt']
    if present['cmd_opt']:
        cmd[K('cpp_std')] = val['cmd_opt']
    if present['cmd_subopt']:
        cmd[K('cpp_std', 'sub')] = val['cmd_subopt']
    st.initialize_from_top_level_project_call(top_pd, cmd, mf)
    own = {K('cpp_std'): val['own_opt']} if present['own_opt'] else {}
    spc = {K('cpp_std'): val['spcall_opt']} if present['spcall_opt'] else {}
    st.initialize_from_subproject_call('sub', spc, own, cmd, mf)
    # only now the subproject adds its language (CoreData.add_compiler_options)
    st.add_compiler_option('cpp', K('cpp_std', subproject='sub'), UserComboOption('cpp_std', 'd', 'none', choices=['none'] + vals))
    top = st.get_value_for('cpp_std')
    sub = st.get_value_for('cpp_std', 'sub')
    etop = 'none'
    for s_ in ('parent_opt', 'mf_opt', 'cmd_opt'):
        if present[s_]:
            etop = val[s_]
    esub = etop
    for s_ in SRC:
        if present[s_]:
            esub = val[s_]
    return (top, sub), (etop, esub), present


def _preclate_chunk(chunk):
    fails, nt = [], 0
    for mask in chunk:
        try:
            got, exp, present = resolve_late(mask)
        except Exception as ex:
            fails.append({'case': {'mask': mask}, 'stage': 'precedence-late', 'detail': f'{type(ex).__name__}: {ex}'})
            continue
        nt += bin(mask).count('1') >= 2
        if got != exp:
            fails.append({'case': {'mask': mask, 'sources': [s for s in SRC if present[s]]}, 'stage': 'precedence-late',
                          'detail': f'late-created cpp_std: (top-level, subproject) values {got!r}, documented precedence gives {exp!r}'})
    return len(chunk), nt, fails


def _prec_chunk(chunk):
    fails, nt = [], 0
    for kind, mask in chunk:
        try:
            got, exp, present = resolve(kind, mask)
        except Exception as ex:
            fails.append({'case': {'kind': kind, 'mask': mask}, 'stage': 'precedence', 'detail': f'{type(ex).__name__}: {ex}'})
            continue
        nt += bin(mask).count('1') >= 2
        if got != exp:
            fails.append({'case': {'kind': kind, 'mask': mask, 'sources': [s for s in SRC if present[s]]}, 'stage': 'precedence',
                          'detail': f'(top-level, subproject) values {got!r}, documented precedence gives {exp!r}'})
    return len(chunk), nt, fails


BT = {'plain': (False, 'plain'), 'debug': (True, '0'), 'debugoptimized': (True, '2'), 'release': (False, '3'), 'minsize': (True, 's')}


def _bt_chunk(chunk):
    """buildtype sets debug/optimization unless they are given explicitly (sources: project default_options, machine file, command line)"""
    from mesonbuild import options as O
    K = O.OptionKey
    fails, nt = [], 0
    for case in chunk:
        bt_src, bt, dbg_src, dbg, order = case
        if bt_src and dbg_src and bt_src != dbg_src:
            continue        # buildtype and debug from different sources: which one prevails is not stated; not checked
        st = O.OptionStore(False)
        st.add_system_option('prefix', O.UserStringOption('prefix', 'd', '/usr/local'))
        for k in ('buildtype', 'debug', 'optimization'):
            st.add_system_option(k, copy.deepcopy(O.BUILTIN_CORE_OPTIONS[K(k)]))
        src = {'pd': {}, 'mf': {}, 'cmd': {}}
        items = []
        if bt_src:
            items.append((bt_src, K('buildtype'), bt))
        if dbg_src:
            items.append((dbg_src, K('debug'), dbg))
        if order == 'rev' and bt_src != 'cmd':
            items.reverse()         # (the command line is re-ordered buildtype-first by cmdline.parse_cmd_line_options)
        for s, k, v in items:
            src[s][k] = v
        try:
            st.initialize_from_top_level_project_call(src['pd'], src['cmd'], src['mf'])
        except Exception as ex:
            fails.append({'case': {'case': list(case)}, 'stage': 'buildtype', 'detail': f'{type(ex).__name__}: {ex}'})
            continue
        got = st.get_value_for('debug')
        if dbg_src:
            exp = dbg == 'true'            # given explicitly: it stands
        elif bt_src:
            exp = BT[bt][0]
        else:
            exp = True                      # declared default of debug
        nt += 1
        if got != exp:
            fails.append({'case': {'buildtype_source': bt_src, 'buildtype': bt, 'debug_source': dbg_src, 'debug': dbg, 'order_within_source': order},
                          'stage': 'buildtype', 'detail': f'debug == {got}, expected {exp} (buildtype sets debug unless debug is given explicitly)'})
    return len(chunk), nt, fails


def _btsub_chunk(chunk):
    """the same rule inside a SUBPROJECT: buildtype and debug both given by one of the subproject's sources (its own default_options,
    subproject(default_options:), the parent's `sub:` default_options, a machine file's `sub:` section, `-Dsub:...`), either order"""
    from mesonbuild import options as O
    K = O.OptionKey
    fails, nt = [], 0
    for src, bt, dbg, order in chunk:
        st = O.OptionStore(False)
        st.add_system_option('prefix', O.UserStringOption('prefix', 'd', '/usr/local'))
        for k in ('buildtype', 'debug', 'optimization'):
            st.add_system_option(k, copy.deepcopy(O.BUILTIN_CORE_OPTIONS[K(k)]))
        sub = src in ('parent', 'mf', 'cmd')
        items = [(K('buildtype', 'sub' if sub else None), bt), (K('debug', 'sub' if sub else None), dbg)]
        if order == 'rev' and src != 'cmd':
            items.reverse()
        d = dict(items)
        try:
            st.initialize_from_top_level_project_call(d if src == 'parent' else {}, d if src == 'cmd' else {}, d if src == 'mf' else {})
            st.initialize_from_subproject_call('sub', d if src == 'call' else {}, d if src == 'own' else {}, d if src == 'cmd' else {}, d if src == 'mf' else {})
        except Exception as ex:
            fails.append({'case': {'source': src, 'buildtype': bt, 'debug': dbg, 'order': order}, 'stage': 'buildtype-sub', 'detail': f'{type(ex).__name__}: {ex}'})
            continue
        got = st.get_value_for(K('debug', 'sub'))
        top = st.get_value_for(K('debug'))
        nt += 1
        if got != (dbg == 'true') or top is not True:
            fails.append({'case': {'source': src, 'buildtype': bt, 'debug': dbg, 'order': order}, 'stage': 'buildtype-sub',
                          'detail': f'the subproject is given buildtype={bt} and debug={dbg} by one source ({src}, order {order}): its debug is {got} (given explicitly: it stands), the top-level debug is {top} (declared default True: untouched)'})
    return len(chunk), nt, fails


def _valid_chunk(chunk):
    """an invalid value is rejected, a stored value always satisfies type/choices/range"""
    from mesonbuild import options as O
    from mesonbuild.utils.core import MesonException
    fails, nt = [], 0
    for kind, value in chunk:
        opt, vals, default, conv = mk_option(kind)
        st = O.OptionStore(False)
        st.add_system_option('prefix', O.UserStringOption('prefix', 'd', '/usr/local'))
        st.add_system_option('x_opt', opt)
        try:
            st.set_option(O.OptionKey('x_opt'), value)
            accepted = True
        except MesonException:
            accepted = False
        except Exception as ex:
            fails.append({'case': {'kind': kind, 'value': repr(value)}, 'stage': 'valid', 'detail': f'internal error {type(ex).__name__}: {ex}'})
            continue
        v = st.get_value_for('x_opt')
        ok = {'integer': lambda v: type(v) is int and 2 <= v <= 40, 'combo': lambda v: v in opt.choices, 'string': lambda v: type(v) is str,
              'boolean': lambda v: type(v) is bool, 'feature': lambda v: v in ('enabled', 'disabled', 'auto')}[kind](v)
        nt += 1
        if not ok:
            fails.append({'case': {'kind': kind, 'value': repr(value)}, 'stage': 'valid', 'detail': f'stored value {v!r} violates the option constraints (accepted={accepted})'})
    return len(chunk), nt, fails


PREFIX_TABLE = {'sysconfdir': ({'/usr': '/etc'}, 'etc'), 'localstatedir': ({'/usr': '/var', '/usr/local': '/var/local'}, 'var'),
                'sharedstatedir': ({'/usr': '/var/lib', '/usr/local': '/var/local/lib'}, 'com')}


def _norm(p):
    return p[:-1] if len(p) > 1 and p.endswith('/') else p


def _prefix_chunk(chunk):
    """prefix-dependent directory defaults follow the prefix — in whatever (equivalent) spelling and from whichever
    source the prefix is given, also when several sources give one (command line > machine file > default_options)"""
    from mesonbuild.options import OptionStore, OptionKey
    K = OptionKey
    fails, nt = [], 0
    for pd, mf, cmd, explicit in chunk:
        st = OptionStore(False)
        st.init_builtins()
        d_pd = {K('prefix'): pd} if pd else {}
        d_mf = {K('prefix'): mf} if mf else {}
        d_cmd = {K('prefix'): cmd} if cmd else {}
        if explicit:
            d_cmd[K('sysconfdir')] = '/custom/etc'
        try:
            st.initialize_from_top_level_project_call(d_pd, d_cmd, d_mf)
        except Exception as ex:
            fails.append({'case': {'default_options': pd, 'machine_file': mf, 'command_line': cmd, 'explicit_sysconfdir': explicit}, 'stage': 'prefix', 'detail': f'raised {type(ex).__name__}: {ex}'})
            continue
        eff = _norm(cmd or mf or pd or '/usr/local')
        nt += bool(pd or mf or cmd)
        exp = {'prefix': eff}
        for n, (m, dflt) in PREFIX_TABLE.items():
            exp[n] = m.get(eff, dflt)
        if explicit:
            exp['sysconfdir'] = '/custom/etc'
        got = {n: st.get_value_for(n) for n in exp}
        if got != exp:
            fails.append({'case': {'default_options': pd, 'machine_file': mf, 'command_line': cmd, 'explicit_sysconfdir': explicit}, 'stage': 'prefix', 'detail': f'directories {got}, the prefix {eff!r} prescribes {exp}'})
    return len(chunk), nt, fails


def _yield_chunk(chunk):
    """a subproject option declared `yield: true` follows the parent until the user names it; once it is given a value
    explicitly (from whichever source, also a value equal to its declared default) that value wins"""
    from mesonbuild.options import OptionStore, OptionKey, UserComboOption, UserStringOption
    K = OptionKey
    fails, nt = [], 0
    for parent_val, explicit, source in chunk:
        st = OptionStore(False)
        st.add_system_option('prefix', UserStringOption('prefix', 'd', '/usr/local'))
        st.add_project_option(K('x', ''), UserComboOption('x', 'd', 'a', choices=['a', 'b', 'c']))
        top_pd = {K('x', 'sub'): explicit} if source == 'parent_subopt' and explicit else {}
        cmd = {K('x', 'sub'): explicit} if source == 'cmd_subopt' and explicit else {}
        mf = {K('x', 'sub'): explicit} if source == 'mf_subopt' and explicit else {}
        cmd[K('x', '')] = parent_val
        st.initialize_from_top_level_project_call(top_pd, cmd, mf)
        st.add_project_option(K('x', 'sub'), UserComboOption('x', 'd', 'b', choices=['a', 'b', 'c'], yielding=True))
        spc = {K('x'): explicit} if source == 'spcall_opt' and explicit else {}
        st.initialize_from_subproject_call('sub', spc, {}, cmd, mf)
        if source == 'configure' and explicit:
            st.set_from_configure_command({K('x', 'sub'): explicit})
        nt += explicit is not None
        got = st.get_value_for('x', 'sub')
        exp = explicit if explicit else parent_val
        if got != exp:
            fails.append({'case': {'parent_value': parent_val, 'explicit_sub_value': explicit, 'source': source}, 'stage': 'yield',
                          'detail': f'sub:x resolves to {got!r}; ' + (f'the user gave sub:x={explicit!r} through {source}' if explicit else f'it yields to the parent value {parent_val!r}')})
    return len(chunk), nt, fails


def _yieldkind_chunk(chunk):
    """a `yield: true` subproject option is linked to the top-level option of the same name only if that option is of the SAME
    kind; whatever the kinds, the value it resolves to satisfies its own type and choices"""
    from mesonbuild import options as O
    K = O.OptionKey
    fails, nt = [], 0

    def mk(kind, yielding=False):
        if kind == 'combo':
            return O.UserComboOption('x', 'd', 'x11', choices=['x11', 'wayland'], yielding=yielding)
        if kind == 'feature':
            return O.UserFeatureOption('x', 'd', 'auto', yielding=yielding)
        if kind == 'string':
            return O.UserStringOption('x', 'd', 'str', yielding=yielding)
        if kind == 'boolean':
            return O.UserBooleanOption('x', 'd', True, yielding=yielding)
        if kind == 'integer':
            return O.UserIntegerOption('x', 'd', 3, min_value=0, max_value=9, yielding=yielding)
        return O.UserStringArrayOption('x', 'd', ['a'], yielding=yielding)
    for top, sub in chunk:
        st = O.OptionStore(False)
        st.add_system_option('prefix', O.UserStringOption('prefix', 'd', '/usr/local'))
        st.add_project_option(K('x', ''), mk(top))
        st.initialize_from_top_level_project_call({}, {}, {})
        so = mk(sub, yielding=True)
        own = so.value
        st.add_project_option(K('x', 'sub'), so)
        st.initialize_from_subproject_call('sub', {}, {}, {}, {})
        nt += 1
        got = st.get_value_for('x', 'sub')
        exp = st.get_value_for('x', '') if top == sub else own
        if got != exp:
            fails.append({'case': {'top_level_kind': top, 'subproject_kind': sub}, 'stage': 'yield-kind', 'detail': f'sub:x ({sub}, yield: true) resolves to {got!r} with a top-level {top} option of the same name; expected {exp!r}'})
            continue
        try:
            mk(sub).validate_value(got)
        except Exception:
            fails.append({'case': {'top_level_kind': top, 'subproject_kind': sub}, 'stage': 'yield-kind', 'detail': f'sub:x resolves to {got!r}, which its own kind ({sub}) rejects'})
    return len(chunk), nt, fails


def _key_chunk(chunk):
    """the facts about OptionKey that the merge contracts assume: evolve(subproject=s) sets the subproject and nothing
    else, is injective on global keys, as_root() is evolve(subproject=''), equal keys are interchangeable as dict keys"""
    from mesonbuild.options import OptionKey
    from mesonbuild.utils.universal import MachineChoice
    fails, nt = [], 0
    names = ['opt', 'prefix', 'cpp_std', 'python.purelibdir', 'b_lto']
    subs = [None, '', 'sub', 'other']
    keys = [OptionKey(n, s_, m) for n in names for s_ in subs for m in MachineChoice]
    for s_ in chunk:
        imgs = {}
        for k in keys:
            nt += 1
            e = k.evolve(subproject=s_)
            if (e.subproject, e.name, e.machine) != (s_, k.name, k.machine):
                fails.append({'case': {'key': str(k), 'subproject': s_}, 'stage': 'OptionKey', 'detail': f'evolve gives {e!r}'})
            if k.subproject is None:
                if e in imgs and imgs[e] != k:
                    fails.append({'case': {'key': str(k), 'subproject': s_}, 'stage': 'OptionKey', 'detail': f'evolve is not injective on global keys: {imgs[e]!r} and {k!r}'})
                imgs[e] = k
            if k.as_root() != k.evolve(subproject=''):
                fails.append({'case': {'key': str(k), 'subproject': s_}, 'stage': 'OptionKey', 'detail': 'as_root() differs from evolve(subproject="")'})
            d = {k: 1}
            if OptionKey(k.name, k.subproject, k.machine) not in d or (e != k and e in d):
                fails.append({'case': {'key': str(k), 'subproject': s_}, 'stage': 'OptionKey', 'detail': 'dict lookup does not follow (name, subproject, machine) equality'})
    return len(chunk), nt, fails


def run(REG, tier, seed, jobs):
    parts = []
    kinds = ['integer', 'combo', 'string', 'boolean', 'feature']
    cases = [(k, m) for k in kinds for m in range(256)]
    ev, nt, fails = pmap(_prec_chunk, chunked(iter(cases), 64), jobs)
    parts.append({'name': 'C07/bounded/precedence-all-source-subsets', 'function': 'OptionStore.initialize_from_top_level_project_call / initialize_from_subproject_call',
                  'bound': f'all 2^8 subsets of the eight value sources x option kinds {kinds}', 'evaluations': ev, 'distinct_nontrivial': nt,
                  'rule': 'non-trivial: at least two sources present', 'exhaustive': True, 'failures': fails})
    pcases = [(n, m, mask, noise) for n in ('pkg_config_path', 'cmake_prefix_path') for m in ('host', 'build') for mask in range(256) for noise in (False, True)]
    ev, nt, fails = pmap(_pm_chunk, chunked(iter(pcases), 64), jobs)
    ev_, nt_, fails_ = pmap(_preclate_chunk, chunked(iter(range(256)), 32), jobs)
    parts.append({'name': 'C07/bounded/precedence-all-source-subsets-late-created-option', 'function': 'OptionStore.initialize_from_top_level_project_call / initialize_from_subproject_call / add_compiler_option (pending values)',
                  'bound': 'all 2^8 subsets of the eight sources for a compiler option (cpp_std) that is created only AFTER both project() calls were merged (the subproject adds the language later)',
                  'evaluations': ev_, 'distinct_nontrivial': nt_, 'rule': 'non-trivial: at least two sources present', 'exhaustive': True, 'failures': fails_})
    parts.append({'name': 'C07/bounded/per-machine-options-in-cross-builds', 'function': 'OptionStore.initialize_from_top_level_project_call / initialize_from_subproject_call / get_value_for (is_cross)',
                  'bound': 'all 2^8 subsets of the eight value sources x {pkg_config_path, cmake_prefix_path} x {host, build} machine key x (the other machine silent / set by every source to another value), cross build, real builtin options',
                  'evaluations': ev, 'distinct_nontrivial': nt, 'rule': 'every case', 'exhaustive': True, 'failures': fails})
    ev, nt, fails = pmap(_mfile_chunk, chunked(iter(range(16)), 1), jobs)
    parts.append({'name': 'C07/bounded/machine-files-in-cross-builds', 'function': 'meson setup --native-file --cross-file (real machine-file parsing), values read back from coredata',
                  'bound': 'all 16 subsets of {native [built-in options], native [sub:built-in options], cross [built-in options], cross [sub:built-in options]} giving pkg_config_path; (build, host) x (top level, subproject)',
                  'evaluations': ev, 'distinct_nontrivial': nt, 'rule': 'every configuration', 'exhaustive': True, 'failures': fails})
    ev, nt, fails = pmap(_empty_chunk, chunked(iter(EMPTIES), 2), jobs)
    parts.append({'name': 'C07/bounded/builtin-values-stored-as-given', 'function': 'OptionStore.initialize_from_top_level_project_call / set_from_configure_command on the real builtin options',
                  'bound': f'{len(EMPTIES)} (builtin option, value) pairs — empty strings for path-list / array / directory options, comma lists, directory spellings — through 4 sources',
                  'evaluations': ev, 'distinct_nontrivial': nt, 'rule': 'every (value, source)', 'exhaustive': True, 'failures': fails})
    spc = [(tp, w, sp_) for tp in (None, '/usr', '/opt/x') for w in ('call', 'own') for sp_ in ('/usr', '/usr/local', '/opt/y')]
    ev, nt, fails = pmap(_subprefix_chunk, chunked(iter(spc), 6), jobs)
    parts.append({'name': 'C07/bounded/subproject-prefix-leaves-global-directories-alone', 'function': 'OptionStore.initialize_from_subproject_call on the real builtin options',
                  'bound': f'{len(spc)} cases: top-level prefix default / /usr / /opt/x  x  prefix given by subproject(default_options:) or by the subproject itself  x  3 values',
                  'evaluations': ev, 'distinct_nontrivial': nt, 'rule': 'every case', 'exhaustive': True, 'failures': fails})
    bts = list(BT)
    cases = [(bs, bt, ds, d, o) for bs in (None, 'pd', 'mf', 'cmd') for bt in (bts if bs else ['debug']) for ds in (None, 'pd', 'mf', 'cmd') for d in (['true', 'false'] if ds else ['true'])
             for o in ('fwd', 'rev')]
    ev, nt, fails = pmap(_bt_chunk, chunked(iter(cases), 40), jobs)
    parts.append({'name': 'C07/bounded/buildtype-sets-debug-unless-explicit', 'function': 'OptionStore.set_option (buildtype expansion)', 'bound': f'{len(cases)} cases: source of buildtype x value x source of debug x value x textual order inside one source',
                  'evaluations': ev, 'distinct_nontrivial': nt, 'rule': 'every case is distinct', 'exhaustive': True, 'failures': fails})
    scases = [(src, bt, d, o) for src in ('own', 'call', 'parent', 'mf', 'cmd') for bt in bts for d in ('true', 'false') for o in ('fwd', 'rev')]
    ev, nt, fails = pmap(_btsub_chunk, chunked(iter(scases), 20), jobs)
    parts.append({'name': 'C07/bounded/buildtype-sets-debug-unless-explicit-in-a-subproject', 'function': 'OptionStore.initialize_from_subproject_call / set_option (buildtype expansion into per-subproject overrides)',
                  'bound': f'{len(scases)} cases: one of the five sources of a subproject gives it buildtype and debug x 5 buildtypes x 2 values x textual order',
                  'evaluations': ev, 'distinct_nontrivial': nt, 'rule': 'every case is distinct', 'exhaustive': True, 'failures': fails})
    values = ['1', '2', '40', '41', '-3', 'abc', '', 'true', 'True', 'FALSE', 'enabled', 'auto', 'v3', 'd', 0, 5, 41, True, False, 3.5, None, ['a'], 'v9']
    cases = [(k, v) for k in kinds for v in values]
    ev, nt, fails = pmap(_valid_chunk, chunked(iter(cases), 16), jobs)
    parts.append({'name': 'C07/bounded/invalid-rejected-stored-valid', 'function': 'OptionStore.set_option / UserOption.set_value', 'bound': f'{len(kinds)} option kinds x {len(values)} candidate values of all python types',
                  'evaluations': ev, 'distinct_nontrivial': nt, 'rule': 'every case is distinct', 'exhaustive': True, 'failures': fails})
    ycases = [(pv, ex, src_) for pv in ('a', 'b', 'c') for ex in (None, 'a', 'b', 'c') for src_ in ('parent_subopt', 'spcall_opt', 'mf_subopt', 'cmd_subopt', 'configure')]
    ev, nt, fails = pmap(_yield_chunk, chunked(iter(ycases), 10), jobs)
    parts.append({'name': 'C07/bounded/yielding-option-explicit-value', 'function': 'OptionStore.set_option / get_option_and_value_for', 'bound': f'{len(ycases)} cases: parent value x explicit subproject value (none, or each choice incl. the declared default) x 5 sources',
                  'evaluations': ev, 'distinct_nontrivial': nt, 'rule': 'non-trivial: an explicit value is given', 'exhaustive': True, 'failures': fails})
    kinds = ['combo', 'feature', 'string', 'boolean', 'integer', 'array']
    ev, nt, fails = pmap(_yieldkind_chunk, chunked(iter([(a, b) for a in kinds for b in kinds]), 6), jobs)
    parts.append({'name': 'C07/bounded/yielding-only-between-options-of-the-same-kind', 'function': 'OptionStore.add_project_option / get_option_and_value_for', 'bound': 'all 36 pairs (kind of the top-level option, kind of the yielding subproject option) over combo, feature, string, boolean, integer, array',
                  'evaluations': ev, 'distinct_nontrivial': nt, 'rule': 'every pair', 'exhaustive': True, 'failures': fails})
    ev, nt, fails = pmap(_key_chunk, chunked(iter([None, '', 'sub', 'other', 'x y']), 1), jobs)
    parts.append({'name': 'C07/bounded/OptionKey-facts-assumed-by-the-merge-contracts', 'function': 'OptionKey.evolve / as_root / __eq__ / __hash__', 'bound': '40 keys (5 names x 4 subprojects x 2 machines) x 5 target subprojects',
                  'evaluations': ev, 'distinct_nontrivial': nt, 'rule': 'every key', 'exhaustive': True, 'failures': fails})
    spell = [None, '/usr', '/usr/', '/usr/local', '/usr/local/', '/opt', '/opt/x/', '/']
    cases = [(a, b, c, e) for a in spell for b in spell for c in spell for e in (False, True)]
    ev, nt, fails = pmap(_prefix_chunk, chunked(iter(cases), 64), jobs)
    parts.append({'name': 'C07/bounded/directory-defaults-follow-prefix', 'function': 'OptionStore.first_handle_prefix / hard_reset_from_prefix', 'bound': f'{len(cases)} cases: prefix absent or in one of 7 spellings (trailing separator included) in default_options x machine file x command line, with and without an explicit sysconfdir',
                  'evaluations': ev, 'distinct_nontrivial': nt, 'rule': 'non-trivial: some source gives a prefix', 'exhaustive': True, 'failures': fails})
    return {'parts': parts}


CHECKS = {
    'C07/bounded/subproject-prefix-leaves-global-directories-alone': (_subprefix_chunk, lambda c: (c['top_prefix'], c['where'], c['sub_prefix'])),
    'C07/bounded/builtin-values-stored-as-given': (_empty_chunk, lambda c: (c['option'], c['given'], c['source'])),
    'C07/bounded/machine-files-in-cross-builds': (_mfile_chunk, lambda c: c['mask']),
    'C07/bounded/per-machine-options-in-cross-builds': (_pm_chunk, lambda c: (c['option'], c['machine'], c['mask'], c['noise'])),
    'C07/bounded/precedence-all-source-subsets': (_prec_chunk, lambda c: (c['kind'], c['mask'])),
    'C07/bounded/yielding-option-explicit-value': (_yield_chunk, lambda c: (c['parent_value'], c['explicit_sub_value'], c['source'])),
    'C07/bounded/yielding-only-between-options-of-the-same-kind': (_yieldkind_chunk, lambda c: (c['top_level_kind'], c['subproject_kind'])),
    'C07/bounded/directory-defaults-follow-prefix': (_prefix_chunk, lambda c: (c['default_options'], c['machine_file'], c['command_line'], c['explicit_sysconfdir'])),
}
