"""C10 bounded stand-in (native), end to end: the documented dependency() policy over the cross product of circumstances —
system dependency (a pkg-config file: absent / version 1.0 / version 2.0) x version constraint x fallback kind (none,
explicit fallback:, wrap [provide], subproject already configured, meson.override_dependency) x wrap_mode x
force_fallback_for x required x allow_fallback — through the real `meson setup`; the lookup is made twice in a row
(consistency).  The reference below is written from the statement of the property."""
import itertools, os, random, re, shutil, subprocess, sys, tempfile
from bounded.util import chunked, pmap

SYS = ['absent', '1.0', '2.0']
CONSTR = [None, '>=1.5', ['>=1.0', '<2.5']]          # the list: the system 1.0 / 2.0 meet it, the fallback / override (3.0) meets only its first half
FB = ['none', 'explicit', 'provide', 'configured', 'override']
WM = ['default', 'nofallback', 'forcefallback', 'nodownload']
FFF = [None, 'foo', 'sp']
REQ = [True, False]
AF = [None, True, False]


def stub_ninja(d):
    p = os.path.join(d, 'stub', 'ninja')
    os.makedirs(os.path.dirname(p), exist_ok=True)
    open(p, 'w').write('#!/bin/sh\necho 1.11.1\n')
    os.chmod(p, 0o755)
    return p


def reference(sysv, constr, fb, wm, fff, req, af):
    """-> 'system' | 'fallback' | 'override' | 'notfound' | 'error' | None (combination not allowed / not specified)"""
    if fb == 'explicit' and af is not None:
        return None                      # fallback: and allow_fallback: are mutually exclusive keywords
    cs = [] if constr is None else ([constr] if isinstance(constr, str) else list(constr))

    def meets(v):
        return all((v >= float(c[2:])) if c.startswith('>=') else (v < float(c[1:])) for c in cs)
    if fb == 'override':
        # the name is overridden: that dependency is the only candidate; it must meet EVERY constraint
        return 'override' if meets(3.0) else ('error' if req else 'notfound')
    if fb == 'configured':
        # the subproject has already overridden the name: that dependency wins, if its version meets every constraint
        return 'fallback' if meets(3.0) else ('error' if req else 'notfound')
    forced = wm == 'forcefallback' or fff is not None
    if fb == 'explicit':
        fb_ok = True
    elif fb == 'provide':
        fb_ok = af is True or (af is None and (req or forced))
    else:
        fb_ok = False
    if af is False:
        fb_ok = False
    if wm == 'nofallback' and not forced:
        fb_ok = False
    sys_ok = sysv != 'absent' and meets(float(sysv))
    if fb_ok and not meets(3.0):
        fb_ok = 'bad-version'            # the fallback is configured, but what it provides does not meet the constraints
    if forced and fb_ok:
        return 'fallback' if fb_ok is True else ('error' if req else 'notfound')
    if sys_ok:
        return 'system'
    if fb_ok is True:
        return 'fallback'
    return 'error' if req else 'notfound'


def project(case):
    sysv, constr, fb, wm, fff, req, af = case
    kw = []
    if constr:
        kw.append(f"version: {constr!r}" if isinstance(constr, list) else f"version: '{constr}'")
    if fb == 'explicit':
        kw.append("fallback: ['sp', 'foo_dep']")
    if not req:
        kw.append('required: false')
    if af is not None:
        kw.append('allow_fallback: ' + ('true' if af else 'false'))
    call = "dependency('foo'" + ''.join(', ' + k for k in kw) + ')'
    pre = ''
    if fb == 'override':
        pre = "meson.override_dependency('foo', declare_dependency(version: '3.0', variables: {'src': 'override'}))\n"
    elif fb == 'configured':
        pre = "subproject('sp')\n"
    top = ("project('top')\n" + pre + f"d = {call}\n"
           "message('RESULT ' + (d.found() ? d.get_variable(pkgconfig: 'src', internal: 'src', default_value: 'novar') : 'notfound'))\n"
           f"e = {call}\n"
           "message('AGAIN ' + (e.found() ? e.get_variable(pkgconfig: 'src', internal: 'src', default_value: 'novar') : 'notfound'))\n")
    sp = ("project('sp', version: '3.0')\nfoo_dep = declare_dependency(version: '3.0', variables: {'src': 'fallback'})\n"
          "meson.override_dependency('foo', foo_dep)\n")
    return top, sp


def _dep_chunk(chunk):
    repo = os.environ.get('VERIF_REPO', '/repo')
    fails, nt = [], 0
    for case in chunk:
        exp = reference(*case)
        if exp is None:
            continue
        sysv, constr, fb, wm, fff, req, af = case
        d = tempfile.mkdtemp(prefix='c10dep')
        try:
            src, build, pc = os.path.join(d, 'src'), os.path.join(d, 'b'), os.path.join(d, 'pc')
            os.makedirs(os.path.join(src, 'subprojects', 'sp'))
            os.makedirs(pc)
            top, sp = project(case)
            open(os.path.join(src, 'meson.build'), 'w').write(top)
            open(os.path.join(src, 'subprojects', 'sp', 'meson.build'), 'w').write(sp)
            if fb == 'provide':
                open(os.path.join(src, 'subprojects', 'sp.wrap'), 'w').write('[wrap-file]\ndirectory = sp\n\n[provide]\nfoo = foo_dep\n')
            if sysv != 'absent':
                open(os.path.join(pc, 'foo.pc'), 'w').write(f'src=system\n\nName: foo\nDescription: d\nVersion: {sysv}\n')
            env = dict(os.environ, NINJA=stub_ninja(d), PKG_CONFIG_PATH=pc, PKG_CONFIG_LIBDIR=pc)
            args = [f'-Dwrap_mode={wm}'] + ([f'-Dforce_fallback_for={fff}'] if fff else [])
            r = subprocess.run([sys.executable, os.path.join(repo, 'meson.py'), 'setup', *args, build, src], capture_output=True, text=True, env=env)
            nt += 1
            m1 = re.search(r'Message: RESULT (\S+)', r.stdout)
            m2 = re.search(r'Message: AGAIN (\S+)', r.stdout)
            if r.returncode != 0:
                got = 'error'
            else:
                got = m1.group(1) if m1 else 'no-message'
            casej = {'system': sysv, 'version': constr, 'fallback_kind': fb, 'wrap_mode': wm, 'force_fallback_for': fff, 'required': req, 'allow_fallback': af}
            if 'Traceback' in r.stdout + r.stderr:
                fails.append({'case': casej, 'stage': 'dependency', 'detail': 'internal error: ' + (r.stdout + r.stderr)[-300:]})
                continue
            if got != exp:
                fails.append({'case': casej, 'stage': 'dependency', 'detail': f'dependency() yields {got!r}, the documented policy prescribes {exp!r}' + ('' if r.returncode == 0 else ': ' + (r.stdout + r.stderr)[-200:].replace('\n', ' '))})
            elif r.returncode == 0 and m2 and m2.group(1) != got:
                fails.append({'case': casej, 'stage': 'dependency', 'detail': f'a second identical lookup yields {m2.group(1)!r} after {got!r}'})
        finally:
            shutil.rmtree(d, ignore_errors=True)
    return len(chunk), nt, fails


CALLS = {
    'plain': "dependency('foo')",
    'optional': "dependency('foo', required: false)",
    'newer-with-fallback': "dependency('foo', version: '>=2', required: false, fallback: ['sp', 'foo_dep'])",
    'newer-no-fallback': "dependency('foo', version: '>=2', required: false)",
    'with-fallback': "dependency('foo', fallback: ['sp', 'foo_dep'])",
    'older-ok': "dependency('foo', version: '>=0.5')",
}


def _seq_chunk(chunk):
    """sequences of lookups of ONE name in one configuration (system foo 1.0 present, a fallback subproject offering 3.0):
    two calls with identical arguments must give the same dependency wherever they stand in the sequence"""
    repo = os.environ.get('VERIF_REPO', '/repo')
    fails, nt = [], 0
    for seq in chunk:
        d = tempfile.mkdtemp(prefix='c10seq')
        try:
            src, build, pc = os.path.join(d, 'src'), os.path.join(d, 'b'), os.path.join(d, 'pc')
            os.makedirs(os.path.join(src, 'subprojects', 'sp'))
            os.makedirs(pc)
            top = "project('top')\n"
            for i, c in enumerate(seq):
                top += f"d{i} = {CALLS[c]}\nmessage('R{i} ' + (d{i}.found() ? d{i}.version() + '/' + d{i}.get_variable(pkgconfig: 'src', internal: 'src', default_value: 'novar') : 'notfound'))\n"
            open(os.path.join(src, 'meson.build'), 'w').write(top)
            open(os.path.join(src, 'subprojects', 'sp', 'meson.build'), 'w').write(
                "project('sp', version: '3.0')\nfoo_dep = declare_dependency(version: '3.0', variables: {'src': 'fallback'})\nmeson.override_dependency('foo', foo_dep)\n")
            open(os.path.join(pc, 'foo.pc'), 'w').write('src=system\n\nName: foo\nDescription: d\nVersion: 1.0\n')
            env = dict(os.environ, NINJA=stub_ninja(d), PKG_CONFIG_PATH=pc, PKG_CONFIG_LIBDIR=pc)
            r = subprocess.run([sys.executable, os.path.join(repo, 'meson.py'), 'setup', build, src], capture_output=True, text=True, env=env)
            nt += 1
            casej = {'sequence': list(seq)}
            if 'Traceback' in r.stdout + r.stderr:
                fails.append({'case': casej, 'stage': 'sequence', 'detail': 'internal error: ' + (r.stdout + r.stderr)[-300:]})
                continue
            got = dict(re.findall(r'Message: R(\d+) (\S+)', r.stdout))
            # what each lookup must yield, from the statement: an overriding subproject wins; otherwise the system copy (1.0) when it meets the
            # constraint — also for a lookup that follows one the system could NOT satisfy —, otherwise the fallback when the call names one
            # (configuring the subproject, which then overrides the name), otherwise not found.  A name once resolved to the system stays there.
            state = 'none'
            for i, c in enumerate(seq):
                g = got.get(str(i))
                if g is None:
                    break
                sys_ok = '>=2' not in CALLS[c]
                if state == 'sp':
                    want = '3.0/fallback'
                elif state == 'sys':
                    want = '1.0/system' if sys_ok else 'notfound'
                elif sys_ok:
                    want, state = '1.0/system', 'sys'
                elif 'fallback:' in CALLS[c]:
                    want, state = '3.0/fallback', 'sp'
                else:
                    want = 'notfound'
                if g != want:
                    fails.append({'case': casej, 'stage': 'sequence-value', 'detail': f'call #{i} {CALLS[c]} yields {g!r}; with the system offering 1.0, the fallback 3.0 and the lookups before it the policy gives {want!r}'})
                    break
            seen = {}
            for i, c in enumerate(seq):
                g = got.get(str(i))
                if g is None:
                    break               # the configuration stopped here (an error is an outcome too; nothing after it ran)
                if c in seen and seen[c][1] != g:
                    fails.append({'case': casej, 'stage': 'sequence', 'detail': f'call #{i} {CALLS[c]} yields {g!r}, the identical call #{seen[c][0]} yielded {seen[c][1]!r}'})
                    break
                seen.setdefault(c, (i, g))
        finally:
            shutil.rmtree(d, ignore_errors=True)
    return len(chunk), nt, fails


def _late_override_chunk(chunk):
    """meson.override_dependency for a name that a lookup has already resolved in this configuration is an error"""
    repo = os.environ.get('VERIF_REPO', '/repo')
    fails, nt = [], 0
    for first, where in chunk:
        d = tempfile.mkdtemp(prefix='c10late')
        try:
            src, build, pc = os.path.join(d, 'src'), os.path.join(d, 'b'), os.path.join(d, 'pc')
            os.makedirs(os.path.join(src, 'subprojects', 'sp'))
            os.makedirs(pc)
            ov = "meson.override_dependency('foo', declare_dependency(version: '9', variables: {'src': 'late'}))\n"
            top = f"project('top')\nd0 = {CALLS[first]}\nmessage('R0 ' + (d0.found() ? d0.version() : 'notfound'))\n"
            top += ov if where == 'top' else "subproject('sp')\n"
            top += f"d1 = {CALLS[first]}\nmessage('R1 ' + (d1.found() ? d1.version() : 'notfound'))\n"
            open(os.path.join(src, 'meson.build'), 'w').write(top)
            open(os.path.join(src, 'subprojects', 'sp', 'meson.build'), 'w').write("project('sp', version: '3.0')\n" + ov)
            open(os.path.join(pc, 'foo.pc'), 'w').write('src=system\n\nName: foo\nDescription: d\nVersion: 1.0\n')
            env = dict(os.environ, NINJA=stub_ninja(d), PKG_CONFIG_PATH=pc, PKG_CONFIG_LIBDIR=pc)
            r = subprocess.run([sys.executable, os.path.join(repo, 'meson.py'), 'setup', build, src], capture_output=True, text=True, env=env)
            nt += 1
            got = dict(re.findall(r'Message: R(\d+) (\S+)', r.stdout))
            casej = {'first_call': first, 'override_in': where}
            if 'Traceback' in r.stdout + r.stderr:
                fails.append({'case': casej, 'stage': 'late-override', 'detail': 'internal error: ' + (r.stdout + r.stderr)[-300:]})
            elif got.get('0') == '1.0' and '1' in got and got['1'] != '1.0':
                fails.append({'case': casej, 'stage': 'late-override', 'detail': f"{CALLS[first]} yields {got['0']!r}, then after a later override_dependency the identical call yields {got['1']!r}"})
            elif got.get('0') == '1.0' and r.returncode == 0:
                fails.append({'case': casej, 'stage': 'late-override', 'detail': 'override_dependency of a name already resolved to the system dependency was accepted'})
        finally:
            shutil.rmtree(d, ignore_errors=True)
    return len(chunk), nt, fails


def run(REG, tier, seed, jobs):
    seqs = [s_ for n_ in (2, 3) for s_ in itertools.product(list(CALLS), repeat=n_) if len(set(s_)) < len(s_)]
    if tier == 'quick':
        seqs = random.Random(seed).sample(seqs, 60)
    # every ordered PAIR of call forms as well (the value of the second lookup after a first one of another form)
    seqs = seqs + [s_ for s_ in itertools.product(list(CALLS), repeat=2) if s_[0] != s_[1]]
    sev, snt, sfails = pmap(_seq_chunk, chunked(iter(seqs), 4), jobs)
    late = [(c, w) for c in ('plain', 'optional', 'older-ok', 'with-fallback') for w in ('top', 'subproject')]
    lev, lnt, lfails = pmap(_late_override_chunk, chunked(iter(late), 1), jobs)
    extra = [{'name': 'C10/bounded/lookup-sequences-consistent', 'function': 'dependency() several times in one meson setup (system foo 1.0 through pkg-config, fallback subproject offering 3.0)',
              'bound': f'{len(seqs)} sequences of 2-3 lookups over {len(CALLS)} call forms ({", ".join(CALLS)}) in which some call form occurs twice, plus every ordered pair of different call forms; identical calls agree AND every lookup yields what the policy gives after the lookups before it' + (' (random sample in the quick tier)' if tier == 'quick' else ' (all)'),
              'evaluations': sev, 'distinct_nontrivial': snt, 'rule': 'every sequence', 'exhaustive': tier != 'quick', 'failures': sfails},
             {'name': 'C10/bounded/late-override-refused', 'function': 'dependency() then meson.override_dependency() of the same name (top level / in a subproject) then dependency() again',
              'bound': f'{len(late)} cases: 4 call forms that resolve to the system dependency x override made at top level or by a subproject', 'evaluations': lev, 'distinct_nontrivial': lnt,
              'rule': 'every case', 'exhaustive': True, 'failures': lfails}]
    return _run_policy(REG, tier, seed, jobs, extra)


def _run_policy(REG, tier, seed, jobs, extra):
    allc = list(itertools.product(SYS, CONSTR, FB, WM, FFF, REQ, AF))
    if tier == 'quick':
        rnd = random.Random(seed)
        cases = rnd.sample(allc, 640)
    else:
        cases = allc
    ev, nt, fails = pmap(_dep_chunk, chunked(iter(cases), 6), jobs)
    return {'parts': extra + [{'name': 'C10/bounded/dependency-policy-cross-product', 'function': 'dependency() through meson setup (pkg-config file as the system dependency, local subproject as the fallback)',
                       'bound': f'{len(cases)} of the {len(allc)} combinations of system dependency (absent, 1.0, 2.0) x constraint x fallback kind (none, explicit, wrap [provide], subproject already configured, override) x wrap_mode x force_fallback_for x required x allow_fallback' + (' (random sample in the quick tier)' if tier == 'quick' else ' (all)') + ', each looked up twice',
                       'evaluations': ev, 'distinct_nontrivial': nt, 'rule': 'non-trivial: the combination is allowed', 'exhaustive': tier != 'quick', 'failures': fails}]}


CHECKS = {'C10/bounded/lookup-sequences-consistent': (_seq_chunk, lambda c: tuple(c['sequence'])),
          'C10/bounded/late-override-refused': (_late_override_chunk, lambda c: (c['first_call'], c['override_in'])),
          'C10/bounded/dependency-policy-cross-product': (_dep_chunk, lambda c: (c['system'], c['version'], c['fallback_kind'], c['wrap_mode'], c['force_fallback_for'], c['required'], c['allow_fallback']))}
