import sys, json
sys.path.insert(0, '/verif')
from contracts import REG
import os, importlib
if os.environ.get('DEV_PROP'):
    import props
    for _m in props.PROPS[os.environ['DEV_PROP']]['modules']:
        importlib.import_module(_m)
else:
    import specs.version, contracts.parser, lemmas.parser, contracts.version, lemmas.version, specs.cargo, contracts.cargo, lemmas.cargo, specs.arglist, contracts.arglist, lemmas.arglist, specs.tap, contracts.tap, specs.mtest, contracts.mtest, lemmas.mtest, specs.options, contracts.options, lemmas.options, specs.conf, contracts.conf, specs.quoting, contracts.quoting, specs.ninja, contracts.ninja, contracts.conffile, contracts.install, specs.wrap, contracts.wrap, contracts.persist, contracts.lang, contracts.setoption, contracts.regexes
    import specs.taprun, contracts.optionkey, lemmas.taprun
from pyvc.verify import verify_contract, verify_lemma
only = sys.argv[1:] 
def show(r, title):
    bad = [o for o in r['obligations'] if o['status'] != 'unsat']
    print(f"{title:45} obl={len(r['obligations'])} bad={len(bad)} paths={r.get('paths')} wall={r.get('wall_s')} be={sorted({o['backend'] for o in r['obligations']})} und={r.get('undecided')}")
    if r.get('error'): print('   ERROR', r['error'].strip().splitlines()[-1], '\n', '\n'.join(r['error'].strip().splitlines()[-16:-1]))
    for o in bad: print('   ', o['status'], o['time_s'], o['name'], o.get('note'), o.get('inputs'), o.get('reason',''))
for c in REG.contracts.values():
    if c.trusted or (only and not any(x in c.name for x in only)): continue
    show(verify_contract(REG, c), c.name)
for l in REG.lemmas.values():
    if only and not any(x in l.name for x in only): continue
    show(verify_lemma(REG, l), 'lemma ' + l.name)
