"""dump the VCs of a contract whose obligation name contains argv[2] to /tmp/vc_<n>.smt2 and show z3's answer/reason"""
import sys
sys.path.insert(0, '/verif')
exec(open('/verif/dev.py').read().split('only = sys.argv')[0])
from pyvc.verify import Engine, _z3api, to_smt2
import z3
name, sub = sys.argv[1], sys.argv[2]
for c in REG.contracts.values():
    if c.trusted or name not in c.name: continue
    eng = Engine(REG)
    info = eng.gen(c)
    n = 0
    for o in info['obligations']:
        if sub in o.name:
            s, r = _z3api(o, 10000)
            print(o.name, r, s.reason_unknown() if r == z3.unknown else '')
            open(f'/tmp/vc_{n}.smt2', 'w').write('(set-logic ALL)\n' + to_smt2(s))
            n += 1
