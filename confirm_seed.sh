#!/bin/sh
# ./confirm_seed.sh <worktree> <seed-id> <prop>  — confirm a sub-agent's seeded change independently, then file it under seeded/
set -u
WT="$1"; ID="$2"; PROP="$3"
cd "$WT" || exit 9
git checkout -q -- mesonbuild
/venv/bin/python _seed/demo.py > /tmp/demo0.$ID.out 2>&1; D0=$?
git apply _seed/patch.diff || { echo "patch does not apply"; exit 9; }
T=$(/venv/bin/python -m pytest -q -p no:cacheprovider --timeout=900 --continue-on-collection-errors 2>&1 | tail -1)
/venv/bin/python _seed/demo.py > /tmp/demo1.$ID.out 2>&1; D1=$?
git checkout -q -- mesonbuild
find . -name __pycache__ -prune -exec rm -rf {} + 2>/dev/null
echo "demo(original)=$D0 demo(changed)=$D1 tests(changed)=$T"
mkdir -p /verif/seeded/$ID
cp _seed/patch.diff _seed/demo.py /verif/seeded/$ID/
[ -f _seed/NOTES.md ] && cp _seed/NOTES.md /verif/seeded/$ID/
cat > /verif/seeded/$ID/confirm.txt <<EOT
confirmed in scratch worktree $WT:
demo on original code: exit $D0
demo on changed code: exit $D1 ($(tail -1 /tmp/demo1.$ID.out | cut -c1-200))
pinned test suite with the change: $T
EOT
