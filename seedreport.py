#!/usr/bin/env python3
"""./seedreport.py — for every filed seed: apply it to /repo, run the DEDUCTIVE side of its property's check alone
(--no-bounded), undo it; record which obligations stop being discharged.  Writes seeded/REPORT.md."""
import glob, json, os, subprocess, sys
only = set(sys.argv[1:])
rows = []
_base = {}


def baseline(prop):
    """obligations that are not discharged on the UNCHANGED tree (recorded findings): never counted as a detection"""
    if prop not in _base:
        f = f'/tmp/seedsum-base-{prop}.json'
        subprocess.run(['./check', prop, '--no-bounded', '--summary', f], capture_output=True, text=True, timeout=3000)
        _base[prop] = {o['name'] for o in json.load(open(f))['not_discharged']} if os.path.exists(f) else set()
    return _base[prop]


def row(m, sat, unk, nsat, nunk, s):
    bounded = [d['obligation'] for d in m['check_run']['first_failed_obligations'] if '/bounded/' in (d['obligation'] or '')]
    return (m['seed'], m['property'], m['breaks'], 'yes' if m['check_run']['detected'] else 'NO',
            (f"{nsat} obligation(s) fail definitely, e.g. `{sat[0]}`" if sat else (f"{nunk} obligation(s) no longer discharged (undecided), e.g. `{unk[0]}`" if unk else ('function left the encodable subset: ' + ', '.join(s['undecided_functions']) if s['undecided_functions'] else 'not noticed'))),
            '`' + bounded[0] + '`' if bounded else ('(not needed)' if sat else '-'))


for f in sorted(glob.glob('seeded/*/meta.json')):
    m = json.load(open(f))
    sid, prop = m['seed'], m['property']
    patch = os.path.realpath(f'seeded/{sid}/patch.diff')
    if only and sid not in only and 'deductive' in m:
        dd = m['deductive']
        sat, unk = dd['definitely_failing_obligations'], dd['undischarged_obligations']
        nsat, nunk = dd['n_sat'], dd['n_unknown']
        s = {'undecided_functions': dd['functions_outside_the_subset_after_the_change']}
        rows.append(row(m, sat, unk, nsat, nunk, s))
        continue
    wt = f'/tmp/seedwt-{sid}'
    subprocess.run(['git', '-C', '/repo', 'worktree', 'add', '-q', '--detach', wt], check=True)
    try:
        ap = subprocess.run(['git', '-C', wt, 'apply', patch], capture_output=True, text=True)
        if ap.returncode != 0:
            # the tree has moved on (a later `fix:` commit rewrote the lines the seed changes): keep what was recorded when it applied
            subprocess.run(['git', '-C', '/repo', 'worktree', 'remove', '--force', wt], check=True)
            dd = m.get('deductive') or {'definitely_failing_obligations': [], 'undischarged_obligations': [], 'n_sat': 0, 'n_unknown': 0, 'functions_outside_the_subset_after_the_change': []}
            m['patch_applies_to_current_tree'] = False
            json.dump(m, open(f, 'w'), indent=1, default=repr)
            rows.append(row(m, dd['definitely_failing_obligations'], dd['undischarged_obligations'], dd['n_sat'], dd['n_unknown'], {'undecided_functions': dd['functions_outside_the_subset_after_the_change']}))
            print(sid, 'patch no longer applies (recorded result kept)', flush=True)
            continue
        r = subprocess.run(['./check', prop, '--no-bounded', '--summary', f'/tmp/seedsum-{sid}.json'], capture_output=True, text=True, timeout=3000, env=dict(os.environ, VERIF_REPO=wt))
    finally:
        if os.path.isdir(wt):
            subprocess.run(['git', '-C', '/repo', 'worktree', 'remove', '--force', wt], check=True)
    s = json.load(open(f'/tmp/seedsum-{sid}.json')) if os.path.exists(f'/tmp/seedsum-{sid}.json') else {'not_discharged': [], 'undecided_functions': [], 'crashes': ['no summary']}
    base = baseline(prop)
    sat = [o['name'] for o in s['not_discharged'] if o['status'] == 'sat' and o['name'] not in base]
    unk = [o['name'] for o in s['not_discharged'] if o['status'] != 'sat' and o['name'] not in base]
    m['deductive'] = {'exit': r.returncode, 'definitely_failing_obligations': sat[:8], 'n_sat': len(sat), 'undischarged_obligations': unk[:8], 'n_unknown': len(unk),
                      'functions_outside_the_subset_after_the_change': s['undecided_functions'], 'crashes': s['crashes']}
    json.dump(m, open(f, 'w'), indent=1, default=repr)
    rows.append(row(m, sat, unk, len(sat), len(unk), s))
    print(sid, len(sat), len(unk), s['undecided_functions'], flush=True)
with open('seeded/REPORT.md', 'w') as out:
    out.write('# Seeded property-breaking changes and the checks that catch them\n\nEach change was written by a fresh sub-agent that saw only the property text and a scratch worktree; each compiles and passes the 107 pinned tests.\n`seedreport.py` regenerates this table (deductive side alone, then the full check recorded in meta.json).\n\n')
    out.write('| seed | property | what it breaks | caught | deductive side (obligations of the changed tree) | bounded layer |\n|---|---|---|---|---|---|\n')
    for r in rows:
        out.write('| ' + ' | '.join(x.replace('|', '\\|') for x in r) + ' |\n')
