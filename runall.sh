#!/bin/sh
# ./runall.sh [tier]  — run every registered check on the current tree; print one line per property
TIER="${1:-quick}"
RC=0
for p in $(python3 -c "import json; print(' '.join(c['property_id'] for c in json.load(open('MANIFEST.json'))['checks']))"); do
  ./check "$p" --tier "$TIER" > "/tmp/runall-$p.txt" 2>&1; rc=$?
  echo "$p exit=$rc $(grep -E "^$p:" /tmp/runall-$p.txt | cut -c1-140)"
  [ $rc -ne 0 ] && RC=1 && grep -E "VIOLATION|UNDECIDED|CHECKER" "/tmp/runall-$p.txt" | head -3 | cut -c1-200
done
exit $RC
