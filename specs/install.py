"""C11 — counting the selected entries of an install list (the answers of should_install, in order)"""
from pyvc.api import Int, Bool, Seq
from contracts import REG


@REG.spec([Seq(Bool), Int], Int, opaque=True)
def nsel(bs, n):
    """how many of the first n answers are True: the position, among the installed entries, of entry n if it is selected"""
    if n <= 0:
        return 0
    return nsel(bs, n - 1) + (1 if bs[n - 1] else 0)
