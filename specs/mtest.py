"""C12 — classification and accounting of `meson test`, from the statement and docs/markdown/Unit-tests.md:
exit 0 (or the expected exit code) OK, 77 SKIP, 99 ERROR, any other status FAIL, inverted to
EXPECTEDFAIL / UNEXPECTEDPASS by should_fail; a result that was already set (TIMEOUT, INTERRUPT, ...) is kept."""
from pyvc.api import Int, Bool, Str, Enum
from contracts import REG

_L = ['PENDING', 'RUNNING', 'OK', 'TIMEOUT', 'INTERRUPT', 'SKIP', 'FAIL', 'EXPECTEDFAIL', 'UNEXPECTEDPASS', 'ERROR', 'IGNORED']
TR = Enum('TestResult', {l: f'mesonbuild.mtest:TestResult.{l}' for l in _L})
REG.consts.update(TR=TR)


def _tr():
    import mesonbuild.mtest
    return mesonbuild.mtest.TestResult


@REG.spec([TR, Bool, Bool], TR)
def finish(r, should_fail, ignored):
    """common completion: a still-running test is OK; should_fail inverts OK and FAIL and nothing else"""
    from mesonbuild.mtest import TestResult
    r1 = TestResult.OK if r is TestResult.RUNNING else r
    r2 = TestResult.IGNORED if ignored else r1
    if should_fail and r2 is TestResult.OK:
        return TestResult.UNEXPECTEDPASS
    if should_fail and r2 is TestResult.FAIL:
        return TestResult.EXPECTEDFAIL
    return r2


@REG.spec([TR, Int, Int], TR)
def by_exit_code(r, rc, expected):
    """the documented exit-code rule, applied only to a test that is still running"""
    from mesonbuild.mtest import TestResult
    if r is not TestResult.RUNNING:
        return r
    if rc == expected:
        return TestResult.OK
    if rc == 77:
        return TestResult.SKIP
    if rc == 99:
        return TestResult.ERROR
    return TestResult.FAIL


@REG.spec([TR], Bool)
def bad(r):
    """failed, errored, timed out, interrupted or unexpectedly passed"""
    from mesonbuild.mtest import TestResult
    return (r is TestResult.FAIL or r is TestResult.TIMEOUT or r is TestResult.INTERRUPT or r is TestResult.UNEXPECTEDPASS
            or r is TestResult.ERROR)


# ---- the tally -----------------------------------------------------------------------------------------
from pyvc.api import Seq
SeqTR = Seq(TR)
REG.consts.update(SeqTR=SeqTR)


@REG.spec([TR], Int)
def counter_of(r):
    """which printed total a classification goes to: 0 timeout, 1 skipped, 2 ignored, 3 ok, 4 fail, 5 expected fail, 6 unexpected pass"""
    from mesonbuild.mtest import TestResult
    if r is TestResult.TIMEOUT:
        return 0
    if r is TestResult.SKIP:
        return 1
    if r is TestResult.IGNORED:
        return 2
    if r is TestResult.OK:
        return 3
    if r is TestResult.FAIL or r is TestResult.ERROR or r is TestResult.INTERRUPT:
        return 4
    if r is TestResult.EXPECTEDFAIL:
        return 5
    if r is TestResult.UNEXPECTEDPASS:
        return 6
    return -1


@REG.spec([SeqTR, Int, Int], Int)
def tally(rs, n, w):
    """number of results among rs[:n] that go to counter w"""
    if n <= 0:
        return 0
    return tally(rs, n - 1, w) + (1 if counter_of(rs[n - 1]) == w else 0)


@REG.spec([SeqTR, Int], Int)
def nbad(rs, n):
    """number of results among rs[:n] that are failed, errored, timed out, interrupted or unexpectedly passed"""
    if n <= 0:
        return 0
    return nbad(rs, n - 1) + (1 if bad(rs[n - 1]) else 0)
