"""C03 — the quoting layer: which quoting is applied in which position."""
from pyvc.api import Int, Bool, Str, Enum
from contracts import REG

Quoting = Enum('Quoting', {k: f'mesonbuild.backend.ninjabackend:Quoting.{k}' for k in ('both', 'notShell', 'notNinja', 'none')})
REG.consts.update(QuotingS=Quoting)


@REG.spec([Str, Bool], Str, uninterpreted='ninja_escape')
def nq(text, is_build_line):
    """text with every `$`, space (and `:` on a build line) prefixed by `$` — the ninja escaping of a string without newline"""
    out = ''
    for c in text:
        out += ('$' + c) if (c in '$ ' or (is_build_line and c == ':')) else c
    return out


@REG.spec([Str, Str, Str], Str, uninterpreted='py_replace')
def replace(s, a, b):
    return s.replace(a, b)
