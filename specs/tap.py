"""C18 — TAP interpretation, clause by clause from TAP 12/13 and the statement.
The line recognisers (regular expressions) are the assumed contract of the regex layer: re_match / re_group /
re_group_none are abstract functions of the line, shared by code and spec (checked bounded against an independent
recogniser).  p is the parser state on entry, E the events yielded by the call."""
from pyvc.api import Int, Bool, Str, re_match, re_group, re_group_none, emptyset, rangeset, setadd, implies
from contracts import REG


@REG.spec([Str], Str, uninterpreted='py_rstrip')
def rstrip(s):
    return s.rstrip()


@REG.spec([Str], Str, uninterpreted='py_strip')
def strip_(s):
    return s.strip()


def kind(e):
    return type(e).__name__


@REG.spec([None, None], Int)
def count(E, k):
    return sum(1 for e in E if type(e).__name__ == k)


@REG.spec([None, None], None)
def the(E, k):
    return [e for e in E if type(e).__name__ == k][0]


# ---- which lines are looked at --------------------------------------------------------------------------
@REG.spec([None, Str], Bool)
def reaches(p, line):
    """the line itself is interpreted: it is not swallowed by a YAML block (YAML only after a test, only in version 13)"""
    if p.state == 2:
        return not (p.version >= 13 and re_match(p._RE_YAML_START, line))
    if p.state == 3:
        return not re_match(p._RE_YAML_END, line) and not line.startswith(p.yaml_indent)
    return True


@REG.spec([None, Str], Bool)
def significant(p, line):
    """not blank, not a diagnostic"""
    return reaches(p, line) and rstrip(line) != '' and not rstrip(line).startswith('#')


@REG.spec([None, Str], Bool)
def is_test(p, line):
    return significant(p, line) and re_match(p._RE_TEST, rstrip(line))


@REG.spec([None, Str], Bool)
def is_plan(p, line):
    return significant(p, line) and not re_match(p._RE_TEST, rstrip(line)) and re_match(p._RE_PLAN, rstrip(line))


@REG.spec([None, Str], Bool)
def is_bailout(p, line):
    return (significant(p, line) and not re_match(p._RE_TEST, rstrip(line)) and not re_match(p._RE_PLAN, rstrip(line))
            and re_match(p._RE_BAILOUT, rstrip(line)))


@REG.spec([None, Str], Bool)
def is_version(p, line):
    return (significant(p, line) and not re_match(p._RE_TEST, rstrip(line)) and not re_match(p._RE_PLAN, rstrip(line))
            and not re_match(p._RE_BAILOUT, rstrip(line)) and re_match(p._RE_VERSION, rstrip(line)))


@REG.spec([None, Str], Bool)
def is_unknown(p, line):
    return (significant(p, line) and not re_match(p._RE_TEST, rstrip(line)) and not re_match(p._RE_PLAN, rstrip(line))
            and not re_match(p._RE_BAILOUT, rstrip(line)) and not re_match(p._RE_VERSION, rstrip(line)))


@REG.spec([None, Str], Bool)
def yaml_unterminated(p, line):
    """inside a YAML block, a line that neither ends it nor continues it: the block was not terminated"""
    return p.state == 3 and not re_match(p._RE_YAML_END, line) and not line.startswith(p.yaml_indent)


# ---- test lines -------------------------------------------------------------------------------------------
@REG.spec([None, Str], Int)
def tnum(p, line):
    """the number of a test line: explicit, else previous + 1"""
    if re_group_none(p._RE_TEST, 2, rstrip(line)):
        return p.last_test + 1
    return int(re_group(p._RE_TEST, 2, rstrip(line)))


@REG.spec([Bool, Bool, Str], Str)
def status(ok, dnone, d):
    """directive-adjusted status: SKIP; TODO gives expected-fail or unexpected-pass"""
    if dnone:
        return 'OK' if ok else 'FAIL'
    if d.upper().startswith('SKIP'):
        return 'SKIP' if ok else 'FAIL'
    if d.upper() == 'TODO':
        return 'UNEXPECTEDPASS' if ok else 'EXPECTEDFAIL'
    return 'OK' if ok else 'FAIL'


@REG.spec([Bool, Str], Bool)
def bad_directive(dnone, d):
    return not dnone and not d.upper().startswith('SKIP') and d.upper() != 'TODO'


@REG.spec([None, Str], Bool)
def late_error(p, line):
    """a test after a late plan: reported once"""
    return p.plan is not None and p.plan.late and not p.found_late_test


@REG.spec([None, Str], Bool)
def beyond_plan(p, line):
    return p.plan is not None and tnum(p, line) > p.plan.num_tests


@REG.spec([None, Str], Int)
def nerr_test(p, line):
    r = rstrip(line)
    return ((1 if late_error(p, line) else 0) + (1 if beyond_plan(p, line) else 0)
            + (1 if bad_directive(re_group_none(p._RE_TEST, 4, r), re_group(p._RE_TEST, 4, r)) else 0))


@REG.spec([None, None, Str], Bool)
def test_events_ok(E, p, line):
    """exactly one subtest with the right number, name and directive-adjusted status, plus the errors that are due"""
    if count(E, 'Test') != 1:
        return False
    if count(E, 'Plan') + count(E, 'Bailout') + count(E, 'Version') + count(E, 'UnknownLine') != 0:
        return False
    r = rstrip(line)
    t = the(E, 'Test')
    return (t.number == tnum(p, line)
            and t.name == strip_(re_group(p._RE_TEST, 3, r))
            and t.result.name == status(re_group(p._RE_TEST, 1, r) == 'ok', re_group_none(p._RE_TEST, 4, r), re_group(p._RE_TEST, 4, r))
            and count(E, 'Error') == nerr_test(p, line) + (1 if yaml_unterminated(p, line) else 0))


@REG.spec([None], None)
def seen(p):
    return emptyset() if p.seen_tests is None else p.seen_tests


@REG.spec([None, None, Str], Bool)
def test_state_ok(p, q, line):
    return (q.num_tests == p.num_tests + 1 and q.last_test == tnum(p, line) and q.highest_test == max(p.highest_test, tnum(p, line))
            and q.state == 2 and q.seen_tests is not None and q.seen_tests == setadd(seen(p), tnum(p, line))
            and q.found_late_test == (p.found_late_test or late_error(p, line))
            and q.plan == p.plan and q.bailed_out == p.bailed_out and q.version == p.version)


@REG.spec([None, None], Bool)
def counters_same(p, q):
    return (q.num_tests == p.num_tests and q.last_test == p.last_test and q.highest_test == p.highest_test
            and q.seen_tests == p.seen_tests and q.found_late_test == p.found_late_test)


# ---- plan lines -------------------------------------------------------------------------------------------
@REG.spec([None, Str], Int)
def nerr_plan(p, line):
    r = rstrip(line)
    if p.plan is not None:
        return 1                                              # a second plan
    if re_group_none(p._RE_PLAN, 2, r) or re_group(p._RE_PLAN, 2, r) == '':
        return 0
    if re_group(p._RE_PLAN, 2, r).upper().startswith('SKIP'):
        return 1 if int(re_group(p._RE_PLAN, 1, r)) > 0 else 0   # SKIP is only valid for an empty plan
    return 1                                                  # any other directive is invalid for a plan


@REG.spec([None, None, None, Str], Bool)
def plan_ok(E, p, q, line):
    r = rstrip(line)
    if count(E, 'Test') + count(E, 'Bailout') + count(E, 'Version') + count(E, 'UnknownLine') != 0:
        return False
    y = 1 if yaml_unterminated(p, line) else 0
    if p.plan is not None:
        return count(E, 'Plan') == 0 and count(E, 'Error') == 1 + y and q.plan == p.plan
    if count(E, 'Plan') != 1:
        return False
    n = int(re_group(p._RE_PLAN, 1, r))
    return (count(E, 'Error') == nerr_plan(p, line) + y and q.plan is not None and q.plan.num_tests == n
            and q.plan.late == (p.num_tests > 0) and the(E, 'Plan').num_tests == n and the(E, 'Plan').late == (p.num_tests > 0)
            and implies(n == 0, q.plan.skipped))


# ---- end of stream ------------------------------------------------------------------------------------------
@REG.spec([None], Int)
def nerr_end(p):
    """unterminated YAML; then, unless the run bailed out: a plan/count mismatch, else duplicate or missing numbers"""
    y = 1 if p.state == 3 else 0
    if p.bailed_out:
        return y
    if p.plan is not None and p.num_tests != p.plan.num_tests:
        return y + 1
    if not (seen(p) == rangeset(1, p.num_tests + 1)):
        return y + 1
    return y


@REG.spec([None], Bool)
def tap_inv(p):
    """representation invariant of the parser state"""
    return (p.num_tests >= 0 and (p.state == 1 or p.state == 2 or p.state == 3) and p.lineno >= 0
            and (p.seen_tests is None) == (p.num_tests == 0))
