"""C18 — the verdict of a TAP test as a whole (TestRunTAP.parse): a fold over the parser's events"""
from pyvc.api import Int, Bool, Str, Seq, Rec, Union
from contracts import REG
from specs.mtest import TR

try:
    from pyvc import src as _src
    _mt = _src.import_module('mesonbuild/mtest.py')
    _P = _mt.TAPParser
    Event = Union('TapEvent',
                  Version=(_P.Version, Rec('EvVersion', version=Int)),
                  Bailout=(_P.Bailout, Rec('EvBailout', message=Str)),
                  Test=(_P.Test, Rec('EvTest', {'number': Int, 'name': Str, 'result': TR, 'explanation': Str})),
                  UnknownLine=(_P.UnknownLine, Rec('EvUnknown', message=Str, lineno=Int)),
                  Error=(_P.Error, Rec('EvError', message=Str)),
                  Plan=(_P.Plan, Rec('EvPlan', num_tests=Int, late=Bool, skipped=Bool, explanation=Str)))
    REG.consts.update(TapEvent=Event, SeqTapEvent=Seq(Event), TAPParser=_P, TestResult=_mt.TestResult)

    @REG.spec([Seq(Event), Int], Int)
    def tapres(evs, n):
        """the provisional result after the first n events: 0 none, 1 FAIL, 2 ERROR — the LAST deciding event wins"""
        if n <= 0:
            return 0
        if isinstance(evs[n - 1], TAPParser.Bailout) or isinstance(evs[n - 1], TAPParser.Error):
            return 2
        if isinstance(evs[n - 1], TAPParser.Test) and bad(evs[n - 1].result):
            return 1
        return tapres(evs, n - 1)

    @REG.spec([Seq(Event), Int], Bool)
    def anybad(evs, n):
        """some event among the first n is an error, a bail-out or a subtest with a bad result"""
        if n <= 0:
            return False
        return (isinstance(evs[n - 1], TAPParser.Bailout) or isinstance(evs[n - 1], TAPParser.Error)
                or (isinstance(evs[n - 1], TAPParser.Test) and bad(evs[n - 1].result)) or anybad(evs, n - 1))

    @REG.spec([Seq(Event), Int], Bool)
    def anybadres(rs, n):
        """some subtest among the first n recorded ones has a bad result"""
        if n <= 0:
            return False
        return (isinstance(rs[n - 1], TAPParser.Test) and bad(rs[n - 1].result)) or anybadres(rs, n - 1)
except ImportError:      # pragma: no cover
    Event = None
