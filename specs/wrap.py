from pyvc.api import Str
from contracts import REG


@REG.spec([Str], Str, uninterpreted='sha256_of')
def sha256_of(path):
    import hashlib
    return hashlib.sha256(open(path, 'rb').read()).hexdigest()


@REG.spec([Str], Str, uninterpreted='py_lower')
def lower(s):
    return s.lower()
