from pyvc.api import Str
from contracts import REG


@REG.spec([Str], Str, uninterpreted='sha256_of')
def sha256_of(path):
    import hashlib
    return hashlib.sha256(open(path, 'rb').read()).hexdigest()


@REG.spec([Str], Str, uninterpreted='py_lower')
def lower(s):
    return s.lower()


from pyvc.api import Obj


@REG.spec([Str, Obj], Obj, uninterpreted='dep_identifier')
def dep_identifier(name, kwargs):
    """the cache key of a dependency lookup"""
    from mesonbuild.dependencies.detect import get_dep_identifier
    return get_dep_identifier(name, kwargs)
