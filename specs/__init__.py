"""Spec functions: pure Python, index recursion only, never importing from /repo."""
