"""C19 — meson version order.  Written from the property statement:
numeric components compare numerically and rank above alphabetic ones, a longer
version with an equal prefix is greater."""
import operator
from pyvc.api import Int, Bool, Str, Seq, Union, Enum
from contracts import REG

IS = Union('IS', I=(int, Int), S=(str, Str))
SeqIS = Seq(IS)
CMP6 = Enum('Cmp', {'lt': 'operator.lt', 'gt': 'operator.gt', 'le': 'operator.le', 'ge': 'operator.ge',
                    'eq': 'operator.eq', 'ne': 'operator.ne'})
REG.consts.update(IS=IS, SeqIS=SeqIS, CMP6=CMP6)


@REG.spec([Int], Int)
def sgn(x):
    if x < 0:
        return -1
    if x > 0:
        return 1
    return 0


@REG.spec([IS, IS], Int)
def cmpc(a, b):
    # a number ranks above a word
    if isinstance(a, int) != isinstance(b, int):
        return 1 if isinstance(a, int) else -1
    if a == b:
        return 0
    return -1 if a < b else 1


@REG.spec([SeqIS, SeqIS, Int], Int)
def vcmp(a, b, k):
    """lexicographic comparison from index k; a strict prefix is smaller"""
    if k >= len(a) or k >= len(b):
        return sgn(len(a) - len(b))
    c = cmpc(a[k], b[k])
    return c if c != 0 else vcmp(a, b, k + 1)


@REG.spec([CMP6, Int], Bool)
def apply_op(op, c):
    if op is operator.lt:
        return c < 0
    if op is operator.gt:
        return c > 0
    if op is operator.le:
        return c <= 0
    if op is operator.ge:
        return c >= 0
    if op is operator.eq:
        return c == 0
    return c != 0


# --- uninterpreted stdlib / tokeniser symbols shared by code and spec -------------------------
@REG.spec([Str], Str, uninterpreted='py_strip')
def strip(s):
    return s.strip()


@REG.spec([Str], SeqIS, uninterpreted='version_toks')
def toks(s):
    """tokenisation of a version string: maximal digit runs -> int, maximal [a-zA-Z] runs -> str.
    Uninterpreted in proofs (assumed contract of Version.__init__); checked bounded against spec_toks."""
    return spec_toks(s)


def spec_toks(s):
    out = []
    i = 0
    n = len(s)
    while i < n:
        ch = s[i]
        if ch.isdecimal():                       # \d is Unicode category Nd for str patterns
            j = i
            while j < n and s[j].isdecimal():
                j += 1
            out.append(int(s[i:j]))
            i = j
        elif ('a' <= ch <= 'z') or ('A' <= ch <= 'Z'):
            j = i
            while j < n and (('a' <= s[j] <= 'z') or ('A' <= s[j] <= 'Z')):
                j += 1
            out.append(s[i:j])
            i = j
        else:
            i += 1
    return tuple(out)


@REG.spec([Str], CMP6, opaque=True)
def op_of(s):
    """documented prefix table, longest prefix first; no prefix means equality"""
    if s.startswith('>='):
        return operator.ge
    if s.startswith('<='):
        return operator.le
    if s.startswith('!='):
        return operator.ne
    if s.startswith('=='):
        return operator.eq
    if s.startswith('='):
        return operator.eq
    if s.startswith('>'):
        return operator.gt
    if s.startswith('<'):
        return operator.lt
    return operator.eq


@REG.spec([Str], Str, opaque=True)
def rest_of(s):
    if s.startswith('>=') or s.startswith('<=') or s.startswith('!=') or s.startswith('=='):
        return strip(s[2:])
    if s.startswith('=') or s.startswith('>') or s.startswith('<'):
        return strip(s[1:])
    return strip(s)


@REG.spec([Str, Str], Bool)
def holds(v, cond):
    """a version string satisfies one constraint"""
    return apply_op(op_of(cond), vcmp(toks(v), toks(rest_of(cond)), 0))


# --- constraint lists -------------------------------------------------------------------------
SeqStr = Seq(Str)


@REG.spec([Str, SeqStr, Int, Bool], SeqStr)
def sel(v, conds, n, want):
    """the constraints among conds[:n] that hold (want=True) resp. do not hold (want=False), in order"""
    if n <= 0:
        return EMPTY
    if holds(v, conds[n - 1]) == want:
        return sel(v, conds, n - 1, want) + unit(conds[n - 1])
    return sel(v, conds, n - 1, want)


@REG.spec([Str, SeqStr, Int], Bool)
def all_hold(v, conds, n):
    if n <= 0:
        return True
    return holds(v, conds[n - 1]) and all_hold(v, conds, n - 1)


# --- range algebra (generic in the element type: any total preorder) ---------------------------
from pyvc.api import Abstract, EMPTY, unit
Elem = Abstract('Elem')
REG.consts.update(Elem=Elem, SeqStr=SeqStr)


@REG.spec([None, Elem], Bool)
def mem(r, x):
    """x lies in range r"""
    return (not r.is_empty
            and (r.min is None or (x >= r.min if r.min_eq else x > r.min))
            and (r.max is None or (x <= r.max if r.max_eq else x < r.max)))


@REG.spec([Str], Elem, uninterpreted='ver_of')
def ver(s):
    """the Version denoted by a string, as an element of the abstract total preorder"""
    from mesonbuild.utils.universal import Version      # native evaluation only
    return Version(s)


@REG.spec([Elem, Elem], Int)
def ecmp(a, b):
    if a < b:
        return -1
    if a > b:
        return 1
    return 0


@REG.spec([Elem, Str], Bool)
def holds_e(e, c):
    return apply_op(op_of(c), ecmp(e, ver(rest_of(c))))


@REG.spec([SeqStr, Int, Elem], Bool)
def sat_all(checks, n, e):
    if n <= 0:
        return True
    return holds_e(e, checks[n - 1]) and sat_all(checks, n - 1, e)


@REG.spec([SeqStr, Int, Elem], Bool)
def sat_nonne(checks, n, e):
    """e satisfies every check of checks[:n] that is not a != check"""
    if n <= 0:
        return True
    return (op_of(checks[n - 1]) is operator.ne or holds_e(e, checks[n - 1])) and sat_nonne(checks, n - 1, e)


@REG.spec([SeqIS, SeqIS, Int, Int], Bool)
def eq_range(a, b, k, n):
    """a[j] == b[j] for k <= j < n"""
    if k >= n:
        return True
    return a[k] == b[k] and eq_range(a, b, k + 1, n)
