"""C19 — meson version order.  Written from the property statement:
numeric components compare numerically and rank above alphabetic ones, a longer
version with an equal prefix is greater."""
import operator
from pyvc.api import Int, Bool, Str, Seq, Union, Enum
from contracts import REG

IS = Union('IS', I=(int, Int), S=(str, Str))
SeqIS = Seq(IS)
CMP6 = Enum('Cmp', {'lt': 'operator.lt', 'gt': 'operator.gt', 'le': 'operator.le', 'ge': 'operator.ge',
                    'eq': 'operator.eq', 'ne': 'operator.ne'})
REG.consts.update(IS=IS, SeqIS=SeqIS, CMP6=CMP6)


@REG.spec([Int], Int)
def sgn(x):
    if x < 0:
        return -1
    if x > 0:
        return 1
    return 0


@REG.spec([IS, IS], Int)
def cmpc(a, b):
    # a number ranks above a word
    if isinstance(a, int) != isinstance(b, int):
        return 1 if isinstance(a, int) else -1
    if a == b:
        return 0
    return -1 if a < b else 1


@REG.spec([SeqIS, SeqIS, Int], Int)
def vcmp(a, b, k):
    """lexicographic comparison from index k; a strict prefix is smaller"""
    if k >= len(a) or k >= len(b):
        return sgn(len(a) - len(b))
    c = cmpc(a[k], b[k])
    return c if c != 0 else vcmp(a, b, k + 1)


@REG.spec([CMP6, Int], Bool)
def apply_op(op, c):
    if op is operator.lt:
        return c < 0
    if op is operator.gt:
        return c > 0
    if op is operator.le:
        return c <= 0
    if op is operator.ge:
        return c >= 0
    if op is operator.eq:
        return c == 0
    return c != 0
