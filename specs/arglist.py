"""C13 — CompilerArgs: abstraction function of the lazy representation and the eager meaning.
Classification (ovr / uniq / prep) is abstract: it is whatever the real _can_dedup / _should_prepend
answer, so the proofs hold for every compiler's tables."""
from pyvc.api import Int, Bool, Str, Seq, Enum, EMPTY, unit
from contracts import REG

SeqS = Seq(Str)
Dedup = Enum('Dedup', {'NO_DEDUP': 'mesonbuild.arglist:Dedup.NO_DEDUP', 'UNIQUE': 'mesonbuild.arglist:Dedup.UNIQUE',
                       'OVERRIDDEN': 'mesonbuild.arglist:Dedup.OVERRIDDEN'})
REG.consts.update(SeqS=SeqS, DedupS=Dedup)


@REG.spec([Str], Dedup, uninterpreted='can_dedup')
def can(a):
    """the answer of the real (pure, cached) classmethod _can_dedup for the class at hand"""
    return _CLS[0]._can_dedup(a)


@REG.spec([Str], Bool, uninterpreted='should_prepend')
def prep(a):
    return _CLS[0]._should_prepend(a)


_CLS = [None]     # native evaluation: the CompilerArgs subclass under test (set by the bounded layer / replay)


@REG.spec([Str], Bool)
def ovr(a):
    import mesonbuild.arglist
    return can(a) is mesonbuild.arglist.Dedup.OVERRIDDEN


@REG.spec([Str], Bool)
def uniq(a):
    import mesonbuild.arglist
    return can(a) is mesonbuild.arglist.Dedup.UNIQUE


@REG.spec([SeqS, Int, Str], Bool)
def memb(s, n, x):
    """x occurs in s[:n]"""
    if n <= 0:
        return False
    if s[n - 1] == x:
        return True
    return memb(s, n - 1, x)


@REG.spec([SeqS, Int, Str], Bool)
def membfrom(s, m, x):
    """x occurs in s[m:]"""
    if m >= len(s):
        return False
    if s[m] == x:
        return True
    return membfrom(s, m + 1, x)


@REG.spec([SeqS, Int], SeqS)
def kf(s, n):
    """s[:n] with, of identical override-type arguments, only the FIRST occurrence kept"""
    if n <= 0:
        return EMPTY
    if ovr(s[n - 1]) and memb(s, n - 1, s[n - 1]):
        return kf(s, n - 1)
    return kf(s, n - 1) + unit(s[n - 1])


@REG.spec([SeqS, Int], SeqS)
def kl(s, m):
    """s[m:] with, of identical override-type arguments, only the LAST occurrence kept"""
    if m >= len(s):
        return EMPTY
    if ovr(s[m]) and membfrom(s, m + 1, s[m]):
        return kl(s, m + 1)
    return unit(s[m]) + kl(s, m + 1)


@REG.spec([SeqS, Int, SeqS, SeqS], SeqS)
def filt(c, n, pre, post):
    """c[:n] without the override-type arguments that occur in pre or post"""
    if n <= 0:
        return EMPTY
    if ovr(c[n - 1]) and (memb(pre, len(pre), c[n - 1]) or membfrom(post, 0, c[n - 1])):
        return filt(c, n - 1, pre, post)
    return filt(c, n - 1, pre, post) + unit(c[n - 1])


@REG.spec([SeqS, SeqS, SeqS, Bool], SeqS, opaque=True)
def view(c, pre, post, flag):
    """the argument list a lazy CompilerArgs (container, pre, post, needs_override_check) denotes"""
    if flag:
        return kf(pre, len(pre)) + filt(c, len(c), pre, post) + kl(post, 0)
    return pre + c + post


# ---- += : the accepted split of a batch ------------------------------------------------------------
@REG.spec([SeqS, SeqS, SeqS, Str], Bool)
def acc(c, pre, q, a):
    """a is accepted: it is not a repeat of a once-only argument (q: the appended part so far)"""
    return not (uniq(a) and (a in c or a in pre or a in q))


@REG.spec([SeqS, SeqS, SeqS, SeqS, Int], SeqS)
def Qs(c, pre, post, args, i):
    """post after the first i arguments of the batch"""
    if i <= 0:
        return post
    if acc(c, pre, Qs(c, pre, post, args, i - 1), args[i - 1]) and not prep(args[i - 1]):
        return Qs(c, pre, post, args, i - 1) + unit(args[i - 1])
    return Qs(c, pre, post, args, i - 1)


@REG.spec([SeqS, SeqS, SeqS, SeqS, Int], SeqS)
def Pr(c, pre, post, args, i):
    """the prepended part of the batch after i arguments, most recent first"""
    if i <= 0:
        return EMPTY
    if acc(c, pre, Qs(c, pre, post, args, i - 1), args[i - 1]) and prep(args[i - 1]):
        return unit(args[i - 1]) + Pr(c, pre, post, args, i - 1)
    return Pr(c, pre, post, args, i - 1)


@REG.spec([SeqS, Int], Bool)
def anyovr(args, i):
    if i <= 0:
        return False
    return ovr(args[i - 1]) or anyovr(args, i - 1)


from pyvc.api import Obj


@REG.spec([Str], Bool, uninterpreted='py_isabs')
def isabs(a):
    import os.path
    return os.path.isabs(a)


@REG.spec([SeqS, Str], SeqS)
def app1(v, a):
    """the list denoted after `+= [a]` on a flushed list v"""
    return view(v, rev(Pr(v, EMPTY, EMPTY, unit(a), 1)), Qs(v, EMPTY, EMPTY, unit(a), 1), ovr(a))


@REG.spec([SeqS, SeqS, Int], SeqS)
def direct(v, args, i):
    """the list denoted after extend_direct of args[:i] on v: absolute paths go through +=, everything else is appended verbatim"""
    if i <= 0:
        return v
    if isabs(args[i - 1]):
        return app1(direct(v, args, i - 1), args[i - 1])
    return direct(v, args, i - 1) + unit(args[i - 1])


# ---- extend_preserving_lflags: the split of a batch into library flags (-l… / -L… not in the class's always-dedup table) and the rest
@REG.spec([SeqS, Str], Bool)
def islf(tab, a):
    """a is one of the flags extend_preserving_lflags keeps verbatim: it starts with -l or -L and is not in the always-dedup table"""
    return a not in tab and (a.startswith('-l') or a.startswith('-L'))


@REG.spec([SeqS, SeqS, Int], SeqS)
def nfl(tab, args, i):
    """the arguments among args[:i] that go through the ordinary +=, in order"""
    if i <= 0:
        return EMPTY
    if islf(tab, args[i - 1]):
        return nfl(tab, args, i - 1)
    return nfl(tab, args, i - 1) + unit(args[i - 1])


@REG.spec([SeqS, SeqS, Int], SeqS)
def lfl(tab, args, i):
    """the library flags among args[:i], in order"""
    if i <= 0:
        return EMPTY
    if islf(tab, args[i - 1]):
        return lfl(tab, args, i - 1) + unit(args[i - 1])
    return lfl(tab, args, i - 1)
