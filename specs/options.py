"""C07 — validity of option values, from the statement: a value violating an option's type, choices or range
is always rejected and a stored value always satisfies them."""
from pyvc.api import Int, Bool, Str, Seq
from contracts import REG


@REG.spec([Str], Str, uninterpreted='py_lower')
def lower(s):
    return s.lower()


@REG.spec([Str], Bool, uninterpreted='py_int_ok_10')
def int_ok(s):
    try:
        int(s)
        return True
    except ValueError:
        return False


@REG.spec([Str], Int, uninterpreted='py_int_val_10')
def int_val(s):
    return int(s)


@REG.spec([Int, None, None], Bool)
def in_range(v, lo, hi):
    """within the declared [min, max]"""
    return (lo is None or v >= lo) and (hi is None or v <= hi)


@REG.spec([Seq(Str), Int, Seq(Str)], Bool)
def all_in(xs, n, choices):
    """every element of xs[:n] is one of the choices"""
    if n <= 0:
        return True
    return xs[n - 1] in choices and all_in(xs, n - 1, choices)


@REG.spec([Str], Str, uninterpreted='py_sanitize_prefix')
def sanitized(p):
    """abstract normal form of a prefix (OptionStore.sanitize_prefix)"""
    import os
    p = os.path.expanduser(p)
    if (p.endswith('/') or p.endswith('\\')) and len(p) > 1 and not (len(p) == 3 and p[1] == ':'):
        p = p[:-1]
    return p
