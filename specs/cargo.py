"""C20 — Cargo requirement semantics and SemVer order, written from the statement
(Cargo reference + SemVer 2.0.0 section 11) with the two deviations the statement pins:
a partial '=' / '>' comparator pads with zero, an all-zero caret means < 1.0.0."""
import operator
from pyvc.api import Int, Bool, Str, Seq, Union, Enum, Rec, EMPTY, unit
from contracts import REG
from specs.version import IS, SeqIS, CMP6, sgn, apply_op


@REG.spec([IS, IS], Int)
def cmps(a, b):
    """SemVer §11.4: numeric identifiers have lower precedence than alphanumeric ones"""
    if isinstance(a, int) != isinstance(b, int):
        return -1 if isinstance(a, int) else 1
    if a == b:
        return 0
    return -1 if a < b else 1


@REG.spec([SeqIS, SeqIS, Int], Int)
def scmp(a, b, k):
    """lexicographic from index k on [major, minor, patch, 0 | -1, pre-release identifiers...];
    a larger set of pre-release fields has higher precedence"""
    if k >= len(a) or k >= len(b):
        return sgn(len(a) - len(b))
    c = cmps(a[k], b[k])
    return c if c != 0 else scmp(a, b, k + 1)


@REG.spec([SeqIS, Int], SeqIS)
def padded(v, n):
    """v followed by zeros up to length n"""
    if n <= len(v):
        return v
    return padded(v, n - 1) + unit(0)


@REG.spec([SeqIS], Bool)
def wf(v):
    """representation invariant of SemVer._v"""
    return (len(v) >= 4 and isinstance(v[0], int) and isinstance(v[1], int) and isinstance(v[2], int)
            and v[0] >= 0 and v[1] >= 0 and v[2] >= 0
            and (v[3] == 0 or v[3] == -1) and (len(v) == 4 or v[3] == -1))


@REG.spec([SeqIS, Int], SeqIS)
def bumped(v, i):
    """release triple with component i incremented, later ones zero, pre-release dropped: [M, m, p, 0]"""
    if i == 0:
        return unit(v[0] + 1) + unit(0) + unit(0) + unit(0)
    if i == 1:
        return unit(v[0]) + unit(v[1] + 1) + unit(0) + unit(0)
    return unit(v[0]) + unit(v[1]) + unit(v[2] + 1) + unit(0)


# ---- the requirement language -----------------------------------------------------------------
Bound = Rec('Bound', op=CMP6, v=SeqIS)
SeqBound = Seq(Bound)
REG.consts.update(Bound=Bound, SeqBound=SeqBound)


@REG.spec([SeqIS], Int)
def first_nonzero(v):
    """index of the leftmost non-zero of major/minor/patch; 0 if all are zero (pinned deviation: ^0.0.0 means < 1.0.0)"""
    if v[0] != 0:
        return 0
    if v[1] != 0:
        return 1
    if v[2] != 0:
        return 2
    return 0


@REG.spec([Str, SeqIS, Int], SeqBound)
def bounds(op, v, n):
    """the comparator `op X` with n (1..3) specified components, X padded to v=[M,m,p,0|-1,...], as a conjunction of bounds"""
    if op == '^':
        return unit((operator.ge, v)) + unit((operator.lt, bumped(v, first_nonzero(v))))
    if op == '~':
        return unit((operator.ge, v)) + unit((operator.lt, bumped(v, 1 if n >= 2 else 0)))
    if op == '<=':
        # Cargo: <=I.J.K-pre is an exact upper bound (a pre-release names all three components); <=I.J / <=I / <=I.J.K are the
        # bump of the last specified component
        if v[3] == -1:
            return unit((operator.le, v))
        return unit((operator.lt, bumped(v, n - 1)))
    if op == '>=':
        return unit((operator.ge, v))
    if op == '=':
        return unit((operator.eq, v))
    if op == '>':
        return unit((operator.gt, v))
    if op == '<':
        return unit((operator.lt, v))
    if op == '!=':
        return unit((operator.ne, v))
    return EMPTY


@REG.spec([SeqBound, Int, SeqIS], Bool)
def all_bounds(bs, n, x):
    """x satisfies bs[:n]"""
    if n <= 0:
        return True
    return apply_op(bs[n - 1][0], scmp(x, bs[n - 1][1], 0)) and all_bounds(bs, n - 1, x)


# ---- string-level tokenisers: uninterpreted in proofs, checked bounded ---------------------------
@REG.spec([Str], SeqIS, uninterpreted='semver_vec')
def sv_vec(s):
    from bounded.cargo import spec_semver
    return tuple(spec_semver(s)[0])


@REG.spec([Str], Int, uninterpreted='semver_count')
def sv_count(s):
    from bounded.cargo import spec_semver
    return spec_semver(s)[1]


# ---- canonicalisation of a requirement string (split) ---------------------------------------------
OpVer = Rec('OpVer', op=Str, ver=Str)
SeqOpVer = Seq(OpVer)
REG.consts.update(OpVer=OpVer, SeqOpVer=SeqOpVer)
from specs.version import strip


@REG.spec([Str], Str, uninterpreted='py_lstrip')
def lstrip(s):
    return s.lstrip()


@REG.spec([Str, Str], Seq(Str), uninterpreted='py_split_1')
def split_on(s, sep):
    return tuple(s.split(sep))


@REG.spec([Str], SeqOpVer)
def classify(ver):
    """one comma-separated comparator (already stripped): two-character operators before one-character ones,
    X.* (also written X.x / X.X) is ~X, a bare version is a caret requirement, * (x, X) constrains nothing"""
    if ver == '*' or ver == 'x' or ver == 'X':
        return EMPTY
    if ver.startswith('>=') or ver.startswith('<=') or ver.startswith('!='):
        return unit((ver[0:2], lstrip(ver[2:])))
    if ver.startswith('~') or ver.startswith('=') or ver.startswith('^') or ver.startswith('>') or ver.startswith('<'):
        return unit((ver[0:1], lstrip(ver[1:])))
    if ver.endswith('.*') or ver.endswith('.x') or ver.endswith('.X'):
        return unit(('~', lstrip(ver[:-2])))
    return unit(('^', ver))


@REG.spec([Seq(Str), Int], SeqOpVer)
def split_all(parts, n):
    if n <= 0:
        return EMPTY
    return split_all(parts, n - 1) + classify(strip(parts[n - 1]))


@REG.spec([Str], SeqOpVer, opaque=True)
def split_spec(s):
    if strip(s) == '':
        return EMPTY
    return split_all(split_on(strip(s), ','), len(split_on(strip(s), ',')))


# ---- acceptance by a whole requirement --------------------------------------------------------------
@REG.spec([SeqOpVer, Int], Bool)
def anypre(items, n):
    """some comparator among items[:n] names a pre-release"""
    if n <= 0:
        return False
    return sv_vec(items[n - 1][1])[3] == -1 or anypre(items, n - 1)


@REG.spec([SeqOpVer, Int], Bool)
def wf_items(items, n):
    """every comparator has at least a major version"""
    if n <= 0:
        return True
    return sv_count(items[n - 1][1]) >= 1 and wf_items(items, n - 1)


@REG.spec([OpVer], SeqBound)
def item_bounds(it):
    return bounds(it[0], sv_vec(it[1]), sv_count(it[1]))


@REG.spec([SeqOpVer, Int, SeqIS], Bool)
def allb(items, n, xv):
    if n <= 0:
        return True
    return all_bounds(item_bounds(items[n - 1]), len(item_bounds(items[n - 1])), xv) and allb(items, n - 1, xv)


@REG.spec([SeqOpVer, Int, Str], Bool)
def accepts(items, n, x):
    """a version string x satisfies the requirement: a pre-release only if some comparator names one, and every bound holds"""
    return (not (sv_vec(x)[3] == -1 and not anypre(items, n))) and allb(items, n, sv_vec(x))


@REG.spec([Str], Bool)
def op_ok(op):
    return (op == '^' or op == '~' or op == '=' or op == '<' or op == '<=' or op == '>' or op == '>=' or op == '!=')


# ---- cfg() ------------------------------------------------------------------------------------------
from pyvc.api import Obj, Dict


@REG.spec([Obj, Dict(Str, Str)], Bool, uninterpreted='cfg_sem')
def sem(ir, cfgs):
    """denotation of a cfg predicate: name -> presence, name = "value" -> equality of the configured value,
    not/any/all -> negation, disjunction (false on the empty list), conjunction (true on the empty list).
    In proofs it is an uninterpreted symbol whose defining equation per node class is the postcondition of the
    corresponding contract variant of _eval_cfg; natively it is this reference evaluator."""
    n = type(ir).__name__
    if n == 'Identifier':
        return ir.value in cfgs
    if n == 'Equal':
        return ir.lhs.value in cfgs and cfgs[ir.lhs.value] == ir.rhs.value
    if n == 'Not':
        return not sem(ir.value, cfgs)
    if n == 'Any':
        return any(sem(a, cfgs) for a in ir.args)
    if n == 'All':
        return all(sem(a, cfgs) for a in ir.args)
    raise TypeError(n)
