"""C04 / C06 — ninja manifest kernel: no output path accepted twice."""
from pyvc.api import Int, Bool, Str, Seq, Set
from contracts import REG


@REG.spec([Seq(Str), Int, Str], Bool)
def occurs(xs, n, x):
    """x is among xs[:n]"""
    if n <= 0:
        return False
    return xs[n - 1] == x or occurs(xs, n - 1, x)


@REG.spec([Seq(Str), Int, Set(Str)], Bool)
def clash(xs, n, taken):
    """some name among xs[:n] was already taken before, or is repeated within xs[:n]"""
    if n <= 0:
        return False
    return clash(xs, n - 1, taken) or xs[n - 1] in taken or occurs(xs, n - 1, xs[n - 1])
