"""C14 — rendering of configuration values, from the statement (strings verbatim, integers in decimal, booleans
as define/undef; undefined names reported)."""
from pyvc.api import Int, Bool, Str, Union, Rec, Obj, Seq
from contracts import REG

CV = Union('CV', S=(str, Str), B=(bool, Bool), I=(int, Int), O=(object, Int))
Entry = Rec('CEntry', val=CV, desc=Str)
REG.consts.update(CV=CV, CEntry=Entry)


@REG.spec([Str], Seq(Str), uninterpreted='py_split_0')
def split0(s):
    return s.split()


@REG.spec([Str], Str, uninterpreted='py_strip')
def strip_(s):
    return s.strip()


# ---- the line-by-line meaning of a template: line k of the output is the rendering of line k of the template
from pyvc.api import Set, EMPTY, unit
SubstR = Rec('SubstR', text=Str, missing=Set(Str))
REG.consts.update(SubstR=SubstR)


@REG.spec([Obj, Str, Obj], Str, uninterpreted='fn_do_define_meson')
def render_mesondefine(regex, line, confdata):
    import mesonbuild.utils.universal as U
    return U.do_define_meson(regex, line, confdata, None)


@REG.spec([Obj, Str, Obj], SubstR, uninterpreted='fn_do_replacement_meson')
def render_meson_subst(regex, line, confdata):
    import mesonbuild.utils.universal as U
    return U.do_replacement_meson(regex, line, confdata)


@REG.spec([Str, Obj, Bool], Str, uninterpreted='fn_do_define_cmake')
def render_cmakedefine(line, confdata, at_only):
    import mesonbuild.utils.universal as U
    return U.do_define_cmake(line, confdata, at_only, None)


@REG.spec([Str, Bool, Obj], SubstR, uninterpreted='fn_do_replacement_cmake')
def render_cmake_subst(line, at_only, confdata):
    import mesonbuild.utils.universal as U
    return U.do_replacement_cmake(line, at_only, confdata)


@REG.spec([Str], Bool)
def is_mesondefine_line(s):
    return s.lstrip().startswith('#mesondefine')


@REG.spec([Str], Bool)
def is_cmakedefine_line(s):
    """`#cmakedefine` / `#cmakedefine01` with blanks allowed before the # and between the # and the word"""
    return len(s.lstrip()) >= 2 and s.lstrip()[0] == '#' and s.lstrip()[1:].lstrip().startswith('cmakedefine')


@REG.spec([Str, Str], Str)
def keep_eol(rendered, line):
    """a define line keeps the line ending of its template line (the renderer ends its line with a newline character); a line
    without any terminator keeps the renderer's newline"""
    return (rendered[:-1] + line[len(line.rstrip('\r\n')):]) if line[len(line.rstrip('\r\n')):] else rendered


@REG.spec([Obj, Seq(Str), Obj, Int], Seq(Str))
def meson_lines(regex, data, confdata, n):
    """the rendering of the first n lines of a meson-format template"""
    if n <= 0:
        return EMPTY
    return meson_lines(regex, data, confdata, n - 1) + unit(keep_eol(render_mesondefine(regex, data[n - 1], confdata), data[n - 1]) if is_mesondefine_line(data[n - 1]) else render_meson_subst(regex, data[n - 1], confdata).text)


@REG.spec([Seq(Str), Obj, Bool, Int], Seq(Str))
def cmake_lines(data, confdata, at_only, n):
    """the rendering of the first n lines of a cmake-format template"""
    if n <= 0:
        return EMPTY
    return cmake_lines(data, confdata, at_only, n - 1) + unit(keep_eol(render_cmakedefine(data[n - 1], confdata, at_only), data[n - 1]) if is_cmakedefine_line(data[n - 1]) else render_cmake_subst(data[n - 1], at_only, confdata).text)
