"""C14 — rendering of configuration values, from the statement (strings verbatim, integers in decimal, booleans
as define/undef; undefined names reported)."""
from pyvc.api import Int, Bool, Str, Union, Rec, Obj, Seq
from contracts import REG

CV = Union('CV', S=(str, Str), B=(bool, Bool), I=(int, Int), O=(object, Int))
Entry = Rec('CEntry', val=CV, desc=Str)
REG.consts.update(CV=CV, CEntry=Entry)


@REG.spec([Str], Seq(Str), uninterpreted='py_split_0')
def split0(s):
    return s.split()


@REG.spec([Str], Str, uninterpreted='py_strip')
def strip_(s):
    return s.strip()
