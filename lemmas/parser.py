"""C02 lemmas over the tiling predicate of the token sequence"""
from pyvc.api import Int, Bool, Str, Seq
from contracts import REG
from contracts.parser import TokenR

SeqTok = Seq(TokenR)
REG.lemma('C02', 'L02.tiles_prefix', {'ys': SeqTok, 't': TokenR, 'n': Int, 'e': Int}, requires=['0 <= n', 'n <= len(ys)'],
          goal='tiles(ys + unit(t), n, e) == tiles(ys, n, e)', ih=[{'n': 'n - 1', 'e': 'ys[n - 1].bytespan_0'}], measure='n',
          note='tiling of the first n tokens does not depend on what follows them')
REG.lemma('C02', 'L02.tiles_append', {'ys': SeqTok, 't': TokenR}, requires=['tiles(ys, len(ys), t.bytespan_0)', 't.bytespan_0 < t.bytespan_1'],
          goal='tiles(ys + unit(t), len(ys) + 1, t.bytespan_1)',
          uses=[('L02.tiles_prefix', {'ys': 'ys', 't': 't', 'n': 'len(ys)', 'e': 't.bytespan_0'})],
          note='appending a non-empty token that starts where the tiling ends extends the tiling')
