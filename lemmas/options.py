from pyvc.api import Int, Bool, Str, Seq
from contracts import REG
REG.lemma('C07', 'L07.all_in_iff', {'xs': Seq(Str), 'n': Int, 'choices': Seq(Str)}, requires=['0 <= n', 'n <= len(xs)'],
          goal='all_in(xs, n, choices) == (not exists(Int, lambda j: 0 <= j and j < n and xs[j] not in choices))',
          ih=[{'n': 'n - 1'}], measure='n', note='index-recursive "all elements are choices" equals the quantified form')
