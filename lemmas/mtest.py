"""C12 lemmas: the exit status (sum of three counters) is non-zero iff some result was bad; slices partition"""
from pyvc.api import Int, Bool, Str
from contracts import REG
from specs.mtest import TR, SeqTR

REG.lemma('C12', 'L12.tally_nonneg', {'rs': SeqTR, 'n': Int, 'w': Int}, goal='tally(rs, n, w) >= 0', ih=[{'n': 'n - 1'}], measure='n')
REG.lemma('C12', 'L12.exit_status_iff_bad', {'rs': SeqTR, 'n': Int},
          goal='(tally(rs, n, 4) + tally(rs, n, 6) + tally(rs, n, 0) == 0) == (nbad(rs, n) == 0) and nbad(rs, n) >= 0',
          ih=[{'n': 'n - 1'}], measure='n',
          uses=[('L12.tally_nonneg', {'rs': 'rs', 'n': 'n - 1', 'w': '4'}), ('L12.tally_nonneg', {'rs': 'rs', 'n': 'n - 1', 'w': '6'}),
                ('L12.tally_nonneg', {'rs': 'rs', 'n': 'n - 1', 'w': '0'})],
          note='with each counter equal to its tally (postcondition of process_test_result), total_failure_count is non-zero iff some test failed, errored, timed out, was interrupted or unexpectedly passed')
REG.lemma('C12', 'L12.slices_partition', {'j': Int, 'i': Int, 'n': Int}, requires=['n >= 1', '1 <= i', 'i <= n', 'j >= 0'],
          goal='(j >= i - 1 and (j - (i - 1)) % n == 0) == (i == j % n + 1)',
          note='index j of the selected tests belongs to slice i of n (tests[i-1::n]) iff i == j mod n + 1: the n slices partition the tests')
