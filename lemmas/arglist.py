"""C13 lemmas over the spec functions"""
from pyvc.api import Int, Bool, Str
from contracts import REG
from specs.arglist import SeqS

REG.lemma('C13', 'L13.view_flushed', {'c': SeqS}, goal='view(c, EMPTY, EMPTY, False) == c', reveal=['view'],
          note='a flushed representation denotes its container')
