from pyvc.api import Int, Bool, Str
from contracts import REG
from specs.version import IS, SeqIS, CMP6

REG.lemma('C20', 'L20.scmp_zero_iff_eq', {'a': SeqIS, 'b': SeqIS, 'k': Int}, requires=['k >= 0'],
          goal='(scmp(a, b, k) == 0) == seq_eq_from(a, b, k)', ih=[{'k': 'k + 1'}], measure='len(a) - k')
REG.lemma('C20', 'L20.range', {'a': SeqIS, 'b': SeqIS, 'k': Int}, requires=['k >= 0'],
          goal='-1 <= scmp(a, b, k) and scmp(a, b, k) <= 1', ih=[{'k': 'k + 1'}], measure='len(a) - k')
REG.lemma('C20', 'L20.antisym', {'a': SeqIS, 'b': SeqIS, 'k': Int}, requires=['k >= 0'],
          goal='scmp(a, b, k) == -scmp(b, a, k)', ih=[{'k': 'k + 1'}], measure='len(a) - k')
REG.lemma('C20', 'L20.trans', {'a': SeqIS, 'b': SeqIS, 'c': SeqIS, 'k': Int}, requires=['k >= 0', 'scmp(a, b, k) <= 0', 'scmp(b, c, k) <= 0'],
          goal='scmp(a, c, k) <= 0 and implies(scmp(a, b, k) < 0 or scmp(b, c, k) < 0, scmp(a, c, k) < 0)',
          ih=[{'k': 'k + 1'}], measure='len(a) - k')
REG.lemma('C20', 'L20.prerelease_below_release', {'a': SeqIS, 'b': SeqIS},
          requires=['wf(a)', 'wf(b)', 'a[0] == b[0]', 'a[1] == b[1]', 'a[2] == b[2]', 'a[3] == -1', 'b[3] == 0'],
          goal='scmp(a, b, 0) == -1', note='SemVer 11.3: a pre-release version has lower precedence than the associated normal version')
REG.lemma('C20', 'L20.numeric_below_alnum', {'x': IS, 'y': IS}, requires=['isinstance(x, int)', 'isinstance(y, str)'],
          goal='cmps(x, y) == -1 and cmps(y, x) == 1', note='SemVer 11.4.3')

from pyvc.api import Seq
REG.lemma('C20', 'L20.classify_ops', {'ver': Str, 'j': Int}, requires=['0 <= j', 'j < len(classify(ver))'],
          goal='op_ok(classify(ver)[j][0])', note='every comparator produced by the canonicalisation carries an operator of the table')
from specs.cargo import SeqOpVer
REG.lemma('C20', 'L20.nth_concat', {'A': SeqOpVer, 'B': SeqOpVer, 'j': Int}, requires=['0 <= j', 'j < len(A) + len(B)'],
          goal='(A + B)[j] == (A[j] if j < len(A) else B[j - len(A)])', note='element of a concatenation (sequence theory fact, stated over abstract sequences)')
REG.lemma('C20', 'L20.split_all_ops', {'parts': Seq(Str), 'n': Int, 'j': Int}, requires=['0 <= j', 'j < len(split_all(parts, n))'],
          goal='op_ok(split_all(parts, n)[j][0])', ih=[{'n': 'n - 1'}], measure='n',
          uses=[('L20.classify_ops', {'ver': 'strip(parts[n - 1])', 'j': 'j - len(split_all(parts, n - 1))'}),
                ('L20.nth_concat', {'A': 'split_all(parts, n - 1)', 'B': 'classify(strip(parts[n - 1]))', 'j': 'j'})],
          cases=['n <= 0', 'n > 0 and j < len(split_all(parts, n - 1))', 'n > 0 and j >= len(split_all(parts, n - 1))'],
          hints=['split_all(parts, n) == split_all(parts, n - 1) + classify(strip(parts[n - 1])) or n <= 0'])
