"""C18 lemmas over the verdict fold of a TAP run (specs/taprun.py)"""
from pyvc.api import Int, Bool, Str, Seq
from contracts import REG

# C18: the provisional result of a TAP run is set iff some event is bad
try:
    from specs.taprun import Event as _Ev
    from pyvc.api import Seq as _Seq
    REG.lemma('C18', 'L18.tapres_iff_anybad', {'evs': _Seq(_Ev), 'n': Int}, requires=['0 <= n', 'n <= len(evs)'],
              goal='(tapres(evs, n) != 0) == anybad(evs, n)', ih=[{'n': 'n - 1'}], measure='n',
              note='a TAP run gets a bad provisional result iff an error, a bail-out or a failed / unexpectedly passed subtest occurred')
    REG.lemma('C18', 'L18.anybadres_prefix', {'rs': _Seq(_Ev), 'x': _Ev, 'n': Int}, requires=['0 <= n', 'n <= len(rs)'],
              goal='anybadres(rs + unit(x), n) == anybadres(rs, n)', ih=[{'n': 'n - 1'}], measure='n',
              note='whether one of the first n recorded subtests is bad does not depend on what is recorded after them')
    REG.lemma('C18', 'L18.allskip_not_anybadres', {'rs': _Seq(_Ev), 'n': Int},
              requires=['0 <= n', 'n <= len(rs)', 'forall(Int, lambda k: implies(0 <= k and k < n, rs[k].result is TestResult.SKIP))'],
              goal='not anybadres(rs, n)', ih=[{'n': 'n - 1'}], measure='n',
              note='if every recorded subtest was skipped, none of them is bad')
except ImportError:      # pragma: no cover
    pass
