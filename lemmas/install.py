"""C11 lemmas over nsel (specs/install.py)"""
from pyvc.api import Int, Bool, Seq
from contracts import REG

REG.lemma('C11', 'L11.nsel_prefix', {'bs': Seq(Bool), 'x': Bool, 'n': Int}, requires=['0 <= n', 'n <= len(bs)'],
          goal='nsel(bs + unit(x), n) == nsel(bs, n)', ih=[{'n': 'n - 1'}], measure='n', reveal=['nsel'],
          note='how many of the first n entries were selected does not depend on the answers given after them')
REG.lemma('C11', 'L11.nsel_range', {'bs': Seq(Bool), 'n': Int}, requires=['0 <= n', 'n <= len(bs)'],
          goal='0 <= nsel(bs, n) and nsel(bs, n) <= n', ih=[{'n': 'n - 1'}], measure='n', reveal=['nsel'],
          note='at most n of the first n entries are selected')
REG.lemma('C11', 'L11.nsel_unfold', {'bs': Seq(Bool), 'n': Int}, reveal=['nsel'],
          goal='nsel(bs, n) == (0 if n <= 0 else nsel(bs, n - 1) + (1 if bs[n - 1] else 0))',
          note='the definition of nsel, one step (nsel is kept opaque in the contracts: the solvers get its unfoldings as instances of this lemma at the terms of each obligation, instead of a recursive definition to unfold at will)')
