"""C19 lemmas over the spec functions (order axioms of vcmp), by well-founded induction on len - k."""
from pyvc.api import Int, Bool, Str
from contracts import REG
from specs.version import IS, SeqIS, CMP6

REG.lemma('C19', 'L19.vcmp_zero_iff_eq', {'a': SeqIS, 'b': SeqIS, 'k': Int},
          requires=['k >= 0'],
          goal='(vcmp(a, b, k) == 0) == seq_eq_from(a, b, k)',
          ih=[{'k': 'k + 1'}], measure='len(a) - k',
          note='comparison says "equal" exactly when the component tuples are equal (Python tuple ==) from index k on')
