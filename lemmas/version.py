"""C19 lemmas over the spec functions (order axioms of vcmp), by well-founded induction on len - k."""
from pyvc.api import Int, Bool, Str
from contracts import REG
from specs.version import IS, SeqIS, CMP6

REG.lemma('C19', 'L19.vcmp_zero_iff_eq', {'a': SeqIS, 'b': SeqIS, 'k': Int},
          requires=['k >= 0'],
          goal='(vcmp(a, b, k) == 0) == seq_eq_from(a, b, k)',
          ih=[{'k': 'k + 1'}], measure='len(a) - k',
          note='comparison says "equal" exactly when the component tuples are equal (Python tuple ==) from index k on')

REG.lemma('C19', 'L19.range', {'a': SeqIS, 'b': SeqIS, 'k': Int}, requires=['k >= 0'],
          goal='-1 <= vcmp(a, b, k) and vcmp(a, b, k) <= 1', ih=[{'k': 'k + 1'}], measure='len(a) - k',
          note='the comparison result is one of -1, 0, 1: with L19.vcmp_zero_iff_eq exactly one of <, ==, > holds')
REG.lemma('C19', 'L19.antisym', {'a': SeqIS, 'b': SeqIS, 'k': Int}, requires=['k >= 0'],
          goal='vcmp(a, b, k) == -vcmp(b, a, k)', ih=[{'k': 'k + 1'}], measure='len(a) - k',
          note='a < b iff b > a, a <= b iff b >= a')
REG.lemma('C19', 'L19.trans', {'a': SeqIS, 'b': SeqIS, 'c': SeqIS, 'k': Int}, requires=['k >= 0', 'vcmp(a, b, k) <= 0', 'vcmp(b, c, k) <= 0'],
          goal='vcmp(a, c, k) <= 0 and implies(vcmp(a, b, k) < 0 or vcmp(b, c, k) < 0, vcmp(a, c, k) < 0)',
          ih=[{'k': 'k + 1'}], measure='len(a) - k',
          note='transitivity of <= and of < (strictness is inherited)')
REG.lemma('C19', 'L19.prefix', {'a': SeqIS, 'b': SeqIS, 'k': Int},
          requires=['k >= 0', 'k <= len(b)', 'len(a) > len(b)', 'eq_range(a, b, k, len(b))'],
          goal='vcmp(a, b, k) == 1', ih=[{'k': 'k + 1'}], measure='len(b) - k',
          note='a longer version with an equal prefix is greater')
REG.lemma('C19', 'L19.le_is_lt_or_eq', {'c': Int},
          goal='apply_op(operator.le, c) == (apply_op(operator.lt, c) or apply_op(operator.eq, c)) and apply_op(operator.ge, c) == (apply_op(operator.gt, c) or apply_op(operator.eq, c)) and apply_op(operator.ne, c) == (not apply_op(operator.eq, c))',
          note='<= is < or ==; >= is > or ==; != is not ==')
REG.lemma('C19', 'L19.number_above_word', {'x': IS, 'y': IS}, requires=['isinstance(x, int)', 'isinstance(y, str)'],
          goal='cmpc(x, y) == 1 and cmpc(y, x) == -1',
          note='numeric components rank above alphabetic ones')
REG.lemma('C19', 'L19.numeric', {'x': IS, 'y': IS, 'i': Int, 'j': Int}, requires=['isinstance(x, int)', 'isinstance(y, int)', 'x == i', 'y == j'],
          goal='(cmpc(x, y) < 0) == (i < j) and (cmpc(x, y) == 0) == (i == j)',
          note='numeric components compare numerically')
