#!/bin/sh
# ./seedtest.sh <patch.diff> <prop> [tier]  — run the check of <prop> against a seeded change.
# The change is applied in a scratch worktree of /repo's HEAD (outside /repo and /verif) and the checker is pointed at it through
# VERIF_REPO, so /repo itself is never modified (equivalent to: git -C /repo apply <patch>; ./check <prop>; git -C /repo checkout -- .).
set -u
P="$1"; PROP="$2"; TIER="${3:-quick}"
WT="/tmp/seedwt-$$"
cp "evidence/$PROP.json" "/tmp/evidence-$PROP.keep.$$" 2>/dev/null
git -C /repo worktree add -q --detach "$WT" || exit 9
git -C "$WT" apply "$(realpath "$P")" || { git -C /repo worktree remove --force "$WT"; exit 9; }
VERIF_REPO="$WT" ./check "$PROP" --tier "$TIER" > /tmp/seedtest.$$.out 2>&1; RC=$?
git -C /repo worktree remove --force "$WT"
[ -f "/tmp/evidence-$PROP.keep.$$" ] && mv "/tmp/evidence-$PROP.keep.$$" "evidence/$PROP.json"
tail -25 /tmp/seedtest.$$.out | cut -c1-400
rm -f /tmp/seedtest.$$.out
echo "exit=$RC"
