#!/bin/sh
# ./seedtest.sh <patch.diff> <prop> [tier]  — apply a seeded change to /repo, run the check, undo it straight afterwards
set -u
P="$1"; PROP="$2"; TIER="${3:-quick}"
cp "evidence/$PROP.json" "/tmp/evidence-$PROP.keep" 2>/dev/null
git -C /repo apply "$(realpath "$P")" || exit 9
./check "$PROP" --tier "$TIER" > /tmp/seedtest.out 2>&1; RC=$?
git -C /repo checkout -- .
[ -f "/tmp/evidence-$PROP.keep" ] && mv "/tmp/evidence-$PROP.keep" "evidence/$PROP.json"
find /repo -name __pycache__ -path '*mesonbuild*' -prune -exec rm -rf {} + 2>/dev/null
tail -25 /tmp/seedtest.out | cut -c1-400
echo "exit=$RC"
git -C /repo status --short | head -3
